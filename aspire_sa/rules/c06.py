"""C06 -- the SMC temperature schedule strictly increases, ends at 1, terminates."""

from __future__ import annotations

import ast
import itertools

from .. import AnalysisError
from .. import terms as T
from ..cfg import CFG, calls_in
from ..evalr import Evaluator, Frame, State
from ..model import walk_no_nested
from ..mutants import M
from ..spec import spec
from .common import SELF, fold, loc_of, self_attr
from .schedule import SMC, adaptive_flag, fold_db

META = {
    "explanation": (
        "determine_beta is folded per mode: the fixed-step branch returns beta+step clamped to 1 (C06.clamp) with a "
        "tolerance-robust snap when the loop exit is an equality on an additively accumulated float (C06.fpexit); the "
        "adaptive branch returns min(max(lo, beta+min_step), 1) (C06.floor). Path-sensitive constant propagation over "
        "all condition assignments and zero/many-iteration loop paths finds divisions whose denominator is definitely "
        "zero on a statically feasible path (C06.div0). On the CFG of SMCSampler.sample the SMC loop's only exits are "
        "breaks guarded by beta == 1 or the step cap, the guard is evaluated on every iteration after the temperature "
        "update, the iteration counter is incremented exactly once per iteration and beta is only assigned from "
        "determine_beta (C06.exit/C06.once). A ranking argument over the option prologue shows that either the cap is "
        "active or the minimum step is not the literal zero (C06.prog)."
    ),
    "not_decided": "strict monotonicity for arbitrary populations beyond the ranking argument; termination of the bisection itself",
    "assumptions": ["user-supplied min_step / n_steps / max_n_steps are positive when given"],
}


def enumerate_paths(repo, fn_runner, max_conds=7):
    """Run *fn_runner(assume, loop_mode)* over every assignment of the
    undecided conditions it meets (discovered on the fly) and both loop modes.
    Yields (assignment dict, loop_mode, evaluator)."""
    for loop_mode in ("havoc", "skip"):
        seen_sets = set()
        todo = [dict()]
        while todo:
            assign = todo.pop()
            asked = []

            def assume(c, assign=assign, asked=asked):
                if c in assign:
                    return assign[c]
                asked.append(c)
                return None

            ev = fn_runner(assume, loop_mode)
            new = [c for c in dict.fromkeys(asked) if c not in assign]
            if new and len(assign) < max_conds:
                c = new[0]
                for v in (True, False):
                    a2 = dict(assign)
                    a2[c] = v
                    key = frozenset(a2.items())
                    if key not in seen_sets:
                        seen_sets.add(key)
                        todo.append(a2)
                continue
            yield assign, loop_mode, ev


def describe(assign):
    return ", ".join(f"{T.show(k)[:60]}={'T' if v else 'F'}" for k, v in assign.items()) or "(no conditions)"


def run(ctx, shared=True):
    repo = ctx.repo
    from ..report import reuse as _reuse
    from . import c08 as _c08
    from . import c07 as _c07
    if shared:
        _reuse(ctx, _c07.run, ("C07.opts",), "C06tgt", "option rule shared with C07: a target-efficiency setter that leaves the ramp flag and the stored value inconsistent makes "
               "current_target_efficiency index a float (the run raises) or use a stale ramp",
               only=lambda f: "routing|" not in f.key)
    if shared:
        _reuse(ctx, _c07.run, ("C07.eff", "C07.init"), "C06eff", "efficiency rule shared with C07: the bisection can only advance if the efficiency it compares with the target is ESS / (size of the population "
               "it was computed on); divided by anything larger it stays below the target for every temperature and the schedule never moves")
    from . import c11 as _c11
    if shared:
        _reuse(ctx, _c11.run, ("C11.restore",), "C06res", "restore rule shared with C11: the step cap counts iterations, so a resumed run must continue from the checkpointed iteration and temperature",
               only=lambda f: "iteration" in f.key or "beta" in f.key)
    if shared:
        _reuse(ctx, _c11.run, ("C11.snapshot",), "C06ckpt", "snapshot rule shared with C11: a checkpoint that shares the live temperature list makes a resumed run skip or repeat a step")
    if shared:
        _reuse(ctx, lambda c: _c08.inf_rule(c), ("C08.inf",), "C06w", "incremental-weight rule shared with C08: a NaN weight makes log_weights raise inside determine_beta / resample")
    if shared:
        from . import c20 as _c20
        _reuse(ctx, _c20.run, ("C20.route",), "C06route", "routing rule shared with C20: the schedule options (adaptive, n_steps, min_step, max_n_steps) reach sample() only if the front end hands on "
               "exactly the caller's keyword arguments minus the constructor's -- a selection by value (truthiness) drops adaptive=False and the run follows another schedule")
    # ---- nothing executed by the loop can fail for one array namespace only.  Frozen API fact: torch tensors reject negative slice steps (`t[::-1]` raises
    #      ValueError), NumPy and JAX accept them -- a reversal by slicing in code the loop reaches (diagnostics included: an f-string argument is evaluated
    #      whatever the log level) ends a torch run in the middle of its schedule
    neg = []
    n_sl = 0
    for f_ in repo.all_functions():
        mod_ = f_.ident.split(":")[0]
        if not (mod_.startswith("aspire.samplers") or mod_ in ("aspire.utils", "aspire.samples")) or f_.name.startswith("plot"):
            continue
        for n_ in walk_no_nested(f_.node):
            if isinstance(n_, ast.Slice) and n_.step is not None:
                n_sl += 1
                st_ = n_.step
                negative = (isinstance(st_, ast.UnaryOp) and isinstance(st_.op, ast.USub)) or (isinstance(st_, ast.Constant) and isinstance(st_.value, (int, float)) and st_.value < 0)
                if negative:
                    neg.append((f_, n_))
    ctx.count("strided_slices_in_code_the_loop_can_reach", n_sl)
    ctx.decide(not neg, "C06.opts", "package", loc_of(neg[0][0], neg[0][1]) if neg else "src/aspire",
               "no array is reversed with a negative slice step in the samplers, the sample classes or the utilities",
               (f"{neg[0][0].ident} slices with a negative step: torch tensors reject that (ValueError: step must be greater than zero), so on the torch back end the call raises -- if it is "
                "reached from the SMC loop (a diagnostic for a low-efficiency step, say) the run ends there instead of reaching temperature 1 or its step cap") if neg else "", disc="negative-step")
    smc = repo.cls(SMC)
    db = smc.resolve("determine_beta")
    sample = smc.methods.get("sample")
    if sample is None:
        raise AnalysisError("SMCSampler.sample not found")
    beta, step = T.atom("beta"), T.atom("beta_step")

    # ------------------------------------------------ the SMC loop in sample
    g = CFG(sample.node)
    loop = None
    for lp in g.loops:
        if any(isinstance(c.func, ast.Attribute) and c.func.attr == "mutate" for n in lp["body"] for c in calls_in(n.ast)):
            loop = lp
    if loop is None:
        ctx.unknown("C06.exit", sample.ident, loc_of(sample), "no loop calling self.mutate found")
        return
    lnode = loop["node"]
    ctx.count("cfg_nodes", len(g.nodes))
    fr = Frame(Evaluator(repo), sample, smc, 0)
    infinite = isinstance(lnode, ast.While) and isinstance(lnode.test, ast.Constant) and lnode.test.value is True
    exit_conds = []
    if not infinite:
        from ..evalr import negate
        exit_conds.append((negate(fr.eval(lnode.test, State())), loop["head"]))
    parents = {}
    for n in ast.walk(lnode):
        for ch in ast.iter_child_nodes(n):
            parents[ch] = n
    for b in loop["breaks"]:
        p = parents.get(b.ast)
        if not isinstance(p, ast.If) or b.ast not in p.body or len(p.body) != 1:
            ctx.unknown("C06.exit", sample.ident, loc_of(sample, b.ast), "break is not the sole statement of an if")
            return
        exit_conds.append((fr.eval(p.test, State()), g.node_for(p)))
    # returns / raises inside the loop are other exits
    other = [n for n in loop["body"] if isinstance(n.ast, ast.Return)]
    if other:
        ctx.refute("C06.exit", sample.ident, loc_of(sample, other[0].ast), "the SMC loop can be left by a return, not only at beta == 1 or the step cap")
    it_name = None
    eq_exit = False
    from .smcloop import roles as _roles
    R = _roles(repo)
    b_loc = T.atom(R.beta)
    for cond, node in exit_conds:
        clauses = list(cond[1]) if cond[0] == "or" else [cond]
        has_beta = False
        bad = []
        for cl in clauses:
            if cl[0] == "cmp" and len(cl) == 3:
                lf = T.linear_form(cl[2])
                if set(lf) == {b_loc, ()} and lf[b_loc] in (1, -1) and lf[()] == -lf[b_loc]:
                    if cl[1] == "==":
                        has_beta = True
                        eq_exit = True
                        continue
                    if cl[1] in (">=",) and lf[b_loc] == 1:
                        has_beta = True
                        continue
            if cl[0] == "and":
                parts = list(cl[1])
                caps = [p for p in parts if p[0] == "cmp" and len(p) == 3 and p[1] in (">=", ">")]
                guards = [p for p in parts if p not in caps]
                if len(caps) == 1:
                    lf = T.linear_form(caps[0][2])
                    posn = [k for k, c in lf.items() if c == 1 and k != ()]
                    negn = [k for k, c in lf.items() if c == -1 and k != ()]
                    if len(posn) == 1 and len(negn) == 1 and negn[0][0] == "a" and negn[0][1] in sample.params \
                            and all(gd == ("not", ("is", negn[0], T.NONE)) for gd in guards):
                        it_name = posn[0][1] if posn[0][0] == "a" else None
                        continue
            bad.append(T.show(cl)[:100])
        if bad:
            ctx.refute("C06.exit", sample.ident, f"{sample.module.relpath}:{node.lineno}",
                       f"loop exit has clause(s) {bad} other than beta == 1 / the requested step cap: the run may stop before the target temperature")
        elif not has_beta:
            ctx.refute("C06.exit", sample.ident, f"{sample.module.relpath}:{node.lineno}",
                       "no loop exit tests beta against 1.0: the loop does not end at the target temperature")
        else:
            ctx.prove("C06.exit", sample.ident, f"{sample.module.relpath}:{node.lineno}",
                      f"loop exit == {T.show(cond)[:160]}")
    ctx.floor("SMC loop exits", len(exit_conds), 1)

    # temperature update: exactly one per iteration, from determine_beta(current state)
    def assigns(name):
        def w(n):
            a = n.ast
            if isinstance(a, ast.Assign):
                for t in a.targets:
                    for x in ast.walk(t):
                        if isinstance(x, ast.Name) and x.id == name:
                            return 1
            if isinstance(a, ast.AugAssign) and isinstance(a.target, ast.Name) and a.target.id == name:
                return 1
            return 0
        return w

    cnt = g.count_range(loop, assigns(R.beta))
    ctx.decide(cnt == (1, 1), "C06.once", sample.ident, loc_of(sample, lnode), "beta is assigned exactly once per iteration",
               f"beta is assigned between {cnt[0]} and {cnt[1]} times per iteration", disc="beta")
    upd = [n for n in loop["body"] if assigns(R.beta)(n)]
    ok = False
    if len(upd) == 1 and isinstance(upd[0].ast, ast.Assign) and isinstance(upd[0].ast.value, ast.Call):
        call = upd[0].ast.value
        if isinstance(call.func, ast.Attribute) and call.func.attr == "determine_beta":
            names = [a.id if isinstance(a, ast.Name) else None for a in call.args]
            p = db.params[1:]
            bound = dict(zip(p, names))
            for kw in call.keywords:
                bound[kw.arg] = kw.value.id if isinstance(kw.value, ast.Name) else None
            # the state handed in is the loop's own: current population, current temperature, the running minimum step
            ok = bound.get("beta") == R.beta and bound.get("samples") == R.samples and bound.get("min_step") == R.min_step and bound.get("beta_step") is not None
    ctx.decide(ok, "C06.once", sample.ident, loc_of(sample, upd[0].ast if upd else lnode),
               "the new temperature comes from determine_beta(samples, beta, beta_step, min_step, ...) on the current state",
               "the temperature update is not determine_beta applied to the current samples / beta / step arguments", disc="source")
    if it_name:
        cnt = g.count_range(loop, assigns(it_name))
        incs = [n for n in loop["body"] if assigns(it_name)(n)]
        by_one = all(isinstance(n.ast, ast.AugAssign) and isinstance(n.ast.op, ast.Add) and isinstance(n.ast.value, ast.Constant) and n.ast.value.value == 1 for n in incs)
        ctx.decide(cnt == (1, 1) and by_one, "C06.once", sample.ident, loc_of(sample, lnode),
                   f"the step counter '{it_name}' is incremented by one exactly once per iteration",
                   f"the step counter '{it_name}' is updated {cnt} times per iteration (by one: {by_one})", disc="counter")
    # the recorded schedule gets its entries in the loop only: an append to history.beta after the loop (directly, or through a helper of the sampler that the
    # final enlargement calls as well) records the final temperature a second time, and the recorded sequence is no longer strictly increasing
    smc_cls_ = sample.cls

    def _appends_beta(fn_node):
        return [n_ for n_ in walk_no_nested(fn_node) if isinstance(n_, ast.Call) and isinstance(n_.func, ast.Attribute) and n_.func.attr in ("append", "extend", "insert")
                and isinstance(n_.func.value, ast.Attribute) and n_.func.value.attr == "beta" and isinstance(n_.func.value.value, ast.Attribute) and n_.func.value.value.attr == "history"]
    late_ = []
    for n_ in walk_no_nested(sample.node):
        if getattr(n_, "lineno", 0) <= lnode.end_lineno:
            continue
        if n_ in _appends_beta(sample.node):
            late_.append((n_, "history.beta.append"))
        if isinstance(n_, ast.Call) and isinstance(n_.func, ast.Attribute) and isinstance(n_.func.value, ast.Name) and n_.func.value.id == sample.params[0] and smc_cls_ is not None:
            h_ = smc_cls_.resolve(n_.func.attr)
            if h_ is not None and h_ is not sample and _appends_beta(h_.node):
                late_.append((n_, f"self.{n_.func.attr}() -> history.beta.append"))
    ctx.decide(not late_, "C06.once", sample.ident, loc_of(sample, late_[0][0] if late_ else lnode), "the recorded temperatures are appended inside the loop only",
               (f"`{late_[0][1]}` at line {late_[0][0].lineno} runs after the loop: when the final enlargement takes place the recorded schedule gets one more entry (the final temperature again), "
                "so history.beta is not strictly increasing and a fixed schedule of n steps records n + 1 temperatures") if late_ else "", disc="after-loop")
    # the exit test is evaluated every iteration after the update
    if upd:
        tests = {node for _, node in exit_conds}
        skip = g.paths_avoiding(upd[0], loop["head"], tests - {loop["head"]}) if not (len(tests) == 1 and loop["head"] in tests) else False
        ctx.decide(not skip, "C06.exit", sample.ident, loc_of(sample, lnode), "every iteration evaluates the exit test after updating beta",
                   "a path from the temperature update back to the loop head skips the exit test", disc="every-iteration")

    # ------------------------------------------------ fixed-step branch
    ev, ret, _, _ = fold_db(repo, adaptive=False)
    ctx.count("functions_folded")
    v = ret[1][0] if ret[0] == "t" and len(ret[1]) >= 2 else None  # (new temperature, new minimum step[, extras])
    want_v = T.add(beta, step)
    slack = None
    ok = False
    why = f"fixed-step update returns {T.show(v)[:200] if v else None}"
    def unclamp(t):
        """(inner, clamped): strip an outer min(1, .)"""
        if t is not None and t[0] == "f" and t[1] == "min2" and T.ONE in t[2] and len(t[2]) == 2:
            return [a for a in t[2] if a != T.ONE][0], True
        return t, False
    v_in, clamped = unclamp(v)
    if v_in is not None and v_in[0] == "phi" and v_in[1][0] == "cmp" and len(v_in[1]) == 3:
        c = v_in[1]
        hi, lo = T.select(v_in, c, True), T.select(v_in, c, False)
        if c[1] in (">=", ">") and hi == T.ONE and lo == want_v:
            slack = T.sub(c[2], T.sub(want_v, T.ONE))
            ok = True  # snapped to 1 from 1 - slack on, beta + step below that (an outer min(1, .) changes nothing)
    elif v_in == want_v and clamped:
        ok, slack = True, T.ZERO
    ctx.decide(ok, "C06.clamp", db.ident, loc_of(db), "fixed step: beta' == beta + step, set to 1.0 once it reaches 1.0",
               why + " ; expected beta + beta_step clamped to 1.0")
    if ok and eq_exit:
        lf = T.linear_form(slack)
        # slack = a*step (+ a tiny absolute tolerance): strictly between 0 and one step
        robust = slack != T.ZERO and set(lf) <= {step, ()} and 0 <= lf.get((), 0) <= T.Fraction(1, 10**6) and 0 <= lf.get(step, 0) < 1
        ctx.decide(robust, "C06.fpexit", db.ident, loc_of(db),
                   f"snap to 1.0 within a slack of {T.show(slack)} absorbs the rounding of the accumulated 1/n steps",
                   "the loop exits on beta == 1.0 but the fixed step accumulates beta += 1/n in floating point and only snaps when "
                   "the sum reaches 1.0 exactly: a schedule of n steps can take n+1 iterations (e.g. n=10: 0.1*10 -> 0.9999999999999999)")

    # ------------------------------------------------ adaptive branch
    ev, ret, _, _ = fold_db(repo, adaptive=True)
    ctx.count("functions_folded")
    v = ret[1][0] if ret[0] == "t" and len(ret[1]) >= 2 else None  # (new temperature, new minimum step[, extras])
    ok = False
    v_in, clamped = unclamp(v)
    # an additional snap to 1.0 (any condition) keeps beta' within (beta + min_step, 1]: what is snapped is still the floored value
    snapped = False
    if v_in is not None and v_in[0] == "phi" and T.ONE in (v_in[2], v_in[3]):
        other = v_in[3] if v_in[2] == T.ONE else v_in[2]
        cnd = v_in[1]
        lf_ = T.linear_form(cnd[2]) if cnd[0] == "cmp" and len(cnd) == 3 and cnd[1] in (">=", ">") else None
        # the snap condition is `value >= 1 - something`: monotone in the value, so everything at or above the threshold goes to 1
        if lf_ is not None and lf_.get(other, 0) == 1 and v_in[2] == T.ONE:
            v_in, snapped = other, True
    if v_in is not None and (clamped or snapped):
        inner = v_in
        if inner[0] == "f" and inner[1] == "max2":
            def loop_val(a):  # the bisection result: a loop-carried value (head atom, or opaque when the loop can break)
                return (a[0] == "a" and "@L" in a[1]) or (a[0] == "opaque" and str(a[1]).startswith("loop:"))
            floor = [a for a in inner[2] if not loop_val(a)]
            star = [a for a in inner[2] if loop_val(a)]
            if len(floor) == 1 and len(star) == 1:
                # floor == beta + m with m the (possibly rescaled) minimum step
                m_ = T.sub(floor[0], beta)
                ms = T.atom("min_step")
                leaves = list(T.phi_leaves(m_))
                ok = all(l == ms or (T.is_poly(l) and any(b == ms for mono, _c in l[1] for b, _e in mono) and not any(b == beta and e > 0 and len(mono) == 1 for mono, _c in l[1] for b, e in mono)) for l in leaves)
    ctx.decide(ok, "C06.floor", db.ident, loc_of(db), "adaptive: beta' == max(beta*, beta + min_step), brought to at most 1.0 (clamp, or snap to 1.0 above a threshold)",
               f"adaptive update returns {T.show(v)[:240] if v else None}")

    # ------------------------------------------------ option prologue of sample()
    from .smcloop import fold_sample
    sfp = fold_sample(repo, resumed=False, final=False)
    ep = sfp.ev
    lpp = [sfp.loop] if sfp.loop is not None else []
    if lpp:
        pre = lpp[0]["pre"]
        bs = pre.get(R.beta_step) if R.beta_step else None
        n_st = T.atom("n_steps")
        ok_bs = bs is not None and T.select(bs, ("is", n_st, T.NONE), False) == T.div(T.ONE, n_st)
        ctx.decide(ok_bs, "C06.opts", sample.ident, loc_of(sample), "fixed step == 1 / n_steps", f"the fixed temperature step is {T.show(bs)[:100] if bs else None}, not 1 / n_steps: a schedule of n steps does not take n iterations", disc="beta_step")
        ms = pre.get(R.min_step)
        mn, mx = T.atom("min_step"), T.atom("max_n_steps")
        ok_ms = ms is not None and T.select(ms, ("is", mn, T.NONE), False) == mn \
            and T.select(T.select(ms, ("is", mn, T.NONE), True), ("is", mx, T.NONE), True) == T.ZERO
        capped = T.select(T.select(ms, ("is", mn, T.NONE), True), ("is", mx, T.NONE), False) if ms is not None else None
        ok_cap = capped == T.div(T.ONE, mx)
        ctx.decide(ok_ms and ok_cap, "C06.opts", sample.ident, loc_of(sample), "minimum step: the user's value if given, 1 / max_n_steps under a step cap, otherwise none",
                   f"the minimum step before the loop is {T.show(ms)[:200] if ms else None}", disc="min_step")
        ams = ep.heap.get((SELF, "adaptive_min_step"))
        ok_a = ams is not None and T.select(ams, ("is", mn, T.NONE), False) == T.FALSE and T.select(T.select(ams, ("is", mn, T.NONE), True), ("is", mx, T.NONE), False) == T.TRUE \
            and T.select(T.select(ams, ("is", mn, T.NONE), True), ("is", mx, T.NONE), True) == T.FALSE
        ctx.decide(ok_a, "C06.opts", sample.ident, loc_of(sample), "the minimum step is rescaled per iteration only when it was derived from max_n_steps",
                   f"adaptive_min_step is {T.show(ams)[:160] if ams else None}", disc="adaptive_min_step")
        ctx.decide(ep.heap.get((SELF, "adaptive")) == T.atom("adaptive"), "C06.opts", sample.ident, loc_of(sample), "the adaptive flag used by determine_beta is this call's option",
                   "determine_beta reads self.adaptive, which sample() does not set from its adaptive argument", disc="adaptive")
    from .smcloop import forwarding_rule
    forwarding_rule(ctx, "C06.opts", ("n_steps", "adaptive", "min_step", "max_n_steps"),
                    "the requested schedule option (fixed step count, minimum step, step cap) is not honoured by that sampler")
    # ---- which option combinations make sample() raise: only "no n_steps and not adaptive" (data-validation raises aside)
    def _norm(c, pol):
        while c[0] == "not":
            c, pol = c[1], not pol
        return c, pol
    n_raise = 0
    for e in ep.events:
        if e.func is sample and e.depth == 0 and e.callee.startswith("builtins.") and e.callee.endswith(("Error", "Exception")):
            conds = [_norm(c, pol) for c, pol in e.conds]
            taken = [(c, pol) for c, pol in conds if not (c[0] == "f" and c[1] == "any" and not pol)]
            if any(c[0] == "f" and c[1] == "any" for c, _ in taken):
                continue  # raised on NaN in the initial population's densities: input validation, not an option combination
            n_raise += 1
            want = {(("is", T.atom("n_steps"), T.NONE), True), (T.atom("adaptive"), False)}
            ctx.decide(set(taken) == want, "C06.opts", sample.ident, loc_of(sample, e.node), "the option prologue raises only when neither n_steps nor adaptive is given",
                       "sample() raises when " + " and ".join(("" if pol else "not ") + T.show(c)[:40] for c, pol in taken) + ": a valid combination of schedule options is rejected",
                       disc=f"raise|{n_raise}")
    ctx.floor("option raises in the prologue", n_raise, 1)
    # ---- a fresh run starts from beta = 0 at iteration 0
    if lpp:
        pre = lpp[0]["pre"]
        b0, i0 = pre.get(R.beta), pre.get(R.iterations)
        while i0 is not None and i0[0] == "or" and len(i0[1]) == 2 and T.const_value(i0[1][0]) is not None:
            i0 = i0[1][0] if T.const_value(i0[1][0]) != 0 else i0[1][1]  # `k or d` with a constant k
        ctx.decide(b0 is not None and T.const_value(b0) == 0 and i0 is not None and T.const_value(i0) == 0, "C06.opts", sample.ident, loc_of(sample),
                   "a fresh run enters the loop with beta = 0 and the iteration counter at 0",
                   f"a fresh run enters the loop with beta = {T.show(b0) if b0 else None}, iterations = {T.show(i0) if i0 else None}: the step cap / fixed step count is off", disc="start")
    if lpp:
        # the tolerance the search runs with is the caller's: a floor derived from something else (the population's dtype, say) overrides a finer request, and a
        # search whose bracket stops above the first admissible step returns the current temperature -- with no minimum step the schedule does not advance
        t0 = lpp[0]["pre"].get("beta_tolerance")
        ctx.decide(t0 is None or t0 == T.atom("beta_tolerance"), "C06.opts", sample.ident, loc_of(sample), "the bisection tolerance in force in the loop is the option's value",
                   f"the loop runs with beta_tolerance = {T.show(t0)[:120] if t0 else None}, not the value the caller asked for: a coarser tolerance than requested lets the search return the "
                   "current temperature when the first admissible step is smaller than it (a peaked likelihood), and without a minimum step the recorded temperatures repeat and the run does not end",
                   disc="tolerance-value")
    if upd and isinstance(upd[0].ast, ast.Assign) and isinstance(upd[0].ast.value, ast.Call):
        kwn = {k.arg: (k.value.id if isinstance(k.value, ast.Name) else None) for k in upd[0].ast.value.keywords}
        posn = dict(zip(db.params[1:], [a.id if isinstance(a, ast.Name) else None for a in upd[0].ast.value.args]))
        tol = kwn.get("beta_tolerance", posn.get("beta_tolerance"))
        ctx.decide(tol == "beta_tolerance", "C06.opts", sample.ident, loc_of(sample, upd[0].ast), "the requested bisection tolerance is handed to determine_beta",
                   "sample(beta_tolerance=...) is not passed on to determine_beta: the search always uses the default tolerance", disc="tolerance")

    # ------------------------------------------------ division by a definite zero
    n_paths = 0
    zero_sites = {}
    for adaptive in (True, False):
        def runner(assume, loop_mode, adaptive=adaptive):
            flag = adaptive_flag()

            def a2(c):
                if c == flag:
                    return adaptive
                return assume(c)

            e = Evaluator(repo, max_depth=2, assume=a2, no_inline={"aspire.utils:effective_sample_size"},
                          opaque_methods={"log_weights", "current_target_efficiency"})
            e.loop_mode = loop_mode
            e.run(db, smc)
            return e

        for assign, loop_mode, e in enumerate_paths(repo, runner):
            if e.infeasible:
                continue
            n_paths += 1
            for den, node, fn, _conds in e.divisions:
                if fn is not db:
                    continue
                if den == T.ZERO:
                    key = node.lineno
                    zero_sites.setdefault(key, (node, f"adaptive={adaptive}, loop {'not entered' if loop_mode == 'skip' else 'entered'}, {describe(assign)}"))
    ctx.count("determine_beta_paths", n_paths)
    ctx.floor("determine_beta paths explored", n_paths, 6)
    if not zero_sites:
        ctx.prove("C06.div0", db.ident, loc_of(db), f"no division with a definitely-zero denominator on {n_paths} statically feasible paths")
    for line, (node, path) in sorted(zero_sites.items()):
        ctx.refute("C06.div0", db.ident, loc_of(db, node),
                   f"division by {ast.unparse(node.right)} which is exactly 0 on the path [{path}] (full step accepted, so beta* == 1.0): ZeroDivisionError",
                   disc=ast.unparse(node.right).replace(" ", ""))

    # ------------------------------------------------ denominators that can vanish are guarded
    evg, _, _, _ = fold_db(repo, adaptive=True)
    for den, node, fn, conds in evg.divisions:
        if fn is not db or T.const_value(den) is not None:
            continue
        lf = T.linear_form(den)
        if set(lf) - {()} and lf.get((), 0) != 0 and len([k for k in lf if k != ()]) == 1:
            v = [k for k in lf if k != ()][0]
            # den = c0 + c1*v vanishes at v0 = -c0/c1; temperatures live in [0, 1]
            v0 = -T.Fraction(lf[()]) / T.Fraction(lf[v])
            if not (0 <= v0 <= 1):
                continue
            pos = [c if pol else __import__("aspire_sa.evalr", fromlist=["negate"]).negate(c) for c, pol in conds]
            flat = [q for p_ in pos for q in (p_[1] if p_[0] == "and" else (p_,))]
            guarded = any(q[0] == "cmp" and q[1] in (">", "!=") and len(q) == 3 and q[2] in (den, T.neg(den)) for q in flat)
            ctx.decide(guarded, "C06.guard", db.ident, loc_of(db, node),
                       f"division by {ast.unparse(node.right)} is guarded by a test that excludes {ast.unparse(node.right)} == 0",
                       f"division by {ast.unparse(node.right)}: the value {T.show(v)[:40]} can reach {v0} (temperatures are clamped to 1.0) and no enclosing test on *that* value excludes it: ZeroDivisionError",
                       disc=ast.unparse(node.right).replace(" ", ""))

    # ------------------------------------------------ progress (ranking argument)
    e = Evaluator(repo, max_depth=1, no_inline={db.ident})
    e.run(sample, smc)
    lps = [l for l in e.loops if l["node"] is lnode]
    if not lps:
        ctx.unknown("C06.prog", sample.ident, loc_of(sample), "SMC loop not recorded by the evaluator")
        return
    pre_ms = lps[0]["pre"].get(R.min_step)
    if pre_ms is None:
        ctx.unknown("C06.prog", sample.ident, loc_of(sample), "min_step not defined before the loop")
        return

    def leaves(t, conds):
        if t[0] == "phi":
            yield from leaves(t[2], conds + [(t[1], True)])
            yield from leaves(t[3], conds + [(t[1], False)])
        else:
            yield t, conds

    cap_none = ("is", T.atom("max_n_steps"), T.NONE)
    n = 0
    for val, conds in leaves(pre_ms, []):
        n += 1
        capped = (cap_none, False) in conds
        label = " and ".join(("" if pol else "not ") + T.show(c) for c, pol in conds) or "always"
        if capped:
            ctx.prove("C06.prog", sample.ident, loc_of(sample), f"[{label}] the step cap bounds the number of iterations", disc=label)
        elif val == T.ZERO:
            ctx.refute("C06.prog", sample.ident, loc_of(sample),
                       f"[{label}] min_step is the literal 0.0 and no step cap is active: in adaptive mode beta' = max(beta*, beta + 0) can equal beta "
                       "(beta* == beta when the ESS collapses within the bisection tolerance), so the loop makes no progress and never terminates",
                       disc="min_step=0,uncapped,adaptive")
        else:
            ctx.prove("C06.prog", sample.ident, loc_of(sample), f"[{label}] minimum step {T.show(val)[:60]} is user supplied (assumed positive)", disc=label)
    ctx.floor("min_step option paths", n, 3)


_B = "src/aspire/samplers/smc/base.py"
MUTANTS = [
    M("efficiency divided by the requested, not the actual, population size", "src/aspire/samplers/smc/base.py", ") / len(samples)\n            if eff_beta_max", ") / self.n_requested\n            if eff_beta_max", "C06eff"),
    M("fixed step not clamped", _B, "if beta >= 1.0 - 0.5 * beta_step:\n                beta = 1.0", "pass", "C06.clamp", within="SMCSampler.determine_beta"),
    M("fixed step snaps only at exactly 1.0", _B, "if beta >= 1.0 - 0.5 * beta_step:", "if beta >= 1.0:", "C06.fpexit", within="SMCSampler.determine_beta"),
    M("min_step rescaled even at beta*=1", _B, "if self.adaptive_min_step and beta_star < 1.0:", "if self.adaptive_min_step:", "C06.div0"),
    M("fixed step doubled", _B, "beta += beta_step\n", "beta += 2 * beta_step\n", "C06.clamp", within="SMCSampler.determine_beta"),
    M("adaptive result not clamped", _B, "beta = min(beta, 1.0)\n", "pass\n", "C06.floor"),
    M("adaptive result ignores min step", _B, "beta = max(beta_star, beta_prev + min_step)", "beta = beta_star", "C06.floor"),
    M("loop exits on cap only", _B, "if beta == 1.0 or (\n                    max_n_steps is not None and iterations >= max_n_steps\n                ):", "if max_n_steps is not None and iterations >= max_n_steps:", "C06.exit"),
    M("loop has an extra early exit", _B, "if beta == 1.0 or (", "if beta == 1.0 or iterations > 500 or (", "C06.exit"),
    M("final enlargement recorded as one more temperature", _B, "samples = self.mutate(final_samples, 1.0, n_steps=n_final_steps)", "samples = self.mutate(final_samples, 1.0, n_steps=n_final_steps)\n            self.history.beta.append(1.0)", "C06.once"),
    M("counter incremented twice", _B, "samples = samples.resample(beta, rng=self.rng)\n\n                samples = self.mutate(samples, beta)", "samples = samples.resample(beta, rng=self.rng)\n                iterations += 1\n                samples = self.mutate(samples, beta)", "C06.once"),
    M("temperature updated from stale beta", _B, "beta, min_step = self.determine_beta(\n                    samples,\n                    beta,", "beta, min_step = self.determine_beta(\n                    samples,\n                    samples.beta,", "C06.once"),
    M("exit test skipped on some iterations", _B, "maybe_checkpoint()\n                if beta == 1.0 or (", "maybe_checkpoint()\n                if iterations % 2:\n                    continue\n                if beta == 1.0 or (", "C06.exit"),
    M("division by zero denominator", _B, "beta_min = 1.0\n            target_eff", "beta_min = 1.0\n            min_step = min_step / (beta_max - beta_min)\n            target_eff", "C06.div0"),
]
MUTANTS += [
    M("tolerance floored at the machine epsilon of the population's dtype", _B, "run_smc_loop = True\n        if resumed:", "beta_tolerance = max(beta_tolerance, float(self.xp.finfo(samples.dtype).eps))\n        run_smc_loop = True\n        if resumed:", "C06.opts"),
    M("adaptive runs without n_steps rejected", _B, "elif not adaptive:\n            raise ValueError", "elif adaptive:\n            raise ValueError", "C06.opts"),
    M("fixed schedules rejected unless adaptive", _B, "if n_steps is not None:\n            beta_step = 1 / n_steps", "if n_steps is not None and adaptive:\n            beta_step = 1 / n_steps", "C06.opts"),
    M("iteration counter starts at one", _B, "beta = 0.0\n            iterations = 0", "beta = 0.0\n            iterations = 1", "C06.opts"),
    M("fixed step is zero", _B, "beta_step = 1 / n_steps", "beta_step = 0 / n_steps", "C06.opts"),
    M("default minimum step is a full step", _B, "min_step = 0.0\n                self.adaptive_min_step = False", "min_step = 1.0\n                self.adaptive_min_step = False", "C06.opts"),
    M("cap-derived minimum step halved", _B, "min_step = 1 / max_n_steps\n", "min_step = 0.5 / max_n_steps\n", "C06.opts"),
    M("snap far too early", _B, "if beta >= 1.0 - 0.5 * beta_step:", "if beta >= 0.0 - 0.5 * beta_step:", ("C06.fpexit", "C06.clamp")),
    M("minimum step subtracted", _B, "beta = max(beta_star, beta_prev + min_step)", "beta = max(beta_star, beta_prev - min_step)", "C06.floor"),
    M("tolerance option not forwarded", _B, "min_step,\n                    beta_tolerance=beta_tolerance,\n                )", "min_step,\n                )", "C06.opts"),
    M("rescale by the step actually taken, guard on the proposal", _B, "if self.adaptive_min_step and beta_star < 1.0:\n                min_step = min_step * (1 - beta_prev) / (1 - beta_star)\n            beta = max(beta_star, beta_prev + min_step)\n            beta = min(beta, 1.0)",
      "beta = min(max(beta_star, beta_prev + min_step), 1.0)\n            if self.adaptive_min_step and beta_star < 1.0:\n                min_step = min_step * (1 - beta_prev) / (1 - beta)", "C06.guard"),
]
MUTANTS += [
    M("low-efficiency diagnostic reverses the sorted weights by slicing", _B, "if eff < 0.1:\n                    logger.warning(", "if eff < 0.1:\n                    _top = self.xp.sort(samples.log_weights(beta))[::-1][:3]\n                    logger.warning(", "C06.opts"),
]
NEUTRALS = [
    __import__("aspire_sa.rules.smcloop", fromlist=["HELPER_NEUTRAL"]).HELPER_NEUTRAL,
    M("snap to 1.0 applied after both branches (still increasing, still ends at 1, floor still honoured)", _B,
      "            if beta >= 1.0 - 0.5 * beta_step:\n                beta = 1.0\n", "", more=[("beta = max(beta_star, beta_prev + min_step)\n            beta = min(beta, 1.0)\n        return beta, min_step", "beta = max(beta_star, beta_prev + min_step)\n        if beta >= 1.0 - 0.5 * beta_step:\n            beta = 1.0\n        return min(beta, 1.0), min_step")]),
    M("fixed step snap with another slack", _B, "if beta >= 1.0 - 0.5 * beta_step:", "if beta + 0.25 * beta_step >= 1.0:", within="SMCSampler.determine_beta"),
    M("rescale guard nested", _B, "if self.adaptive_min_step and beta_star < 1.0:\n                min_step = min_step * (1 - beta_prev) / (1 - beta_star)", "if self.adaptive_min_step:\n                if beta_star != 1.0:\n                    min_step = min_step * (1 - beta_prev) / (1 - beta_star)"),
    M("exit clauses reordered", _B, "if beta == 1.0 or (\n                    max_n_steps is not None and iterations >= max_n_steps\n                ):", "if (max_n_steps is not None and iterations >= max_n_steps) or beta == 1.0:"),
    M("adaptive clamp in one expression", _B, "beta = max(beta_star, beta_prev + min_step)\n            beta = min(beta, 1.0)", "beta = min(1.0, max(beta_prev + min_step, beta_star))"),
]

# functions the property is anchored in (auto-mutant sweep of the thorough tier)
ANCHORS = [
    'aspire.samplers.smc.base:SMCSampler.determine_beta',
    'aspire.samplers.smc.base:SMCSampler.sample',
]
