"""C05 -- kernels are handed the correct (tempered) target in the preconditioned space."""

from __future__ import annotations

from .. import AnalysisError
from .. import terms as T
from ..mutants import M
from ..model import walk_no_nested
from ..spec import spec
from .common import SELF, fold, loc_of, self_attr

META = {
    "explanation": (
        "For every function handed to a kernel as log-density (SMCSampler.log_prob and its overrides, resolved per "
        "concrete sampler class, BlackJAXSMC._jax_log_prob, MCMCSampler.log_prob), value numbering shows the returned "
        "value == (1-beta)*Q + beta*(L+P) + J (SMC) or L + P + J (MCMC) where (x, J) are both results of one "
        "preconditioning_transform.inverse(z) call, the sample set is built from that x, Q = prior_flow.log_prob of that "
        "set's x, L is the user likelihood and P the user prior applied to that set, beta is the parameter; SMC values "
        "pass through a NaN -> -inf map; SMCSamples.log_p_t == (1-beta)*log_q + beta*(L+P); each mutate() binds the "
        "class's target to the *parameter* beta when constructing the kernel."
    ),
    "not_decided": "behaviour of the third-party kernels; +inf likelihood at zero prior in plain MCMC",
    "assumptions": ["user callables are deterministic functions of the sample set they receive"],
}

SMC = "aspire.samplers.smc.base:SMCSampler"
MCMC = "aspire.samplers.mcmc:MCMCSampler"


def unwrap_nan(t):
    """Return (inner, how) if t is a NaN -> -inf map of inner."""
    neg_inf = T.neg(T.atom("inf"))
    if t[0] == "f" and t[1] == "update_at" and len(t[2]) == 3:
        v, mask, val = t[2]
        if mask == ("f", "isnan", (v,), ()) and val == neg_inf:
            return v, "update_at_indices(v, isnan(v), -inf)"
    if t[0] == "f" and t[1] == "where" and len(t[2]) == 3:
        c, a, b = t[2]
        if c[0] == "f" and c[1] == "isnan" and c[2] == (b,) and a == neg_inf:
            return b, "where(isnan(v), -inf, v)"
        if c[0] == "not" and c[1][0] == "f" and c[1][1] == "isnan" and c[1][2] == (a,) and b == neg_inf:
            return a, "where(~isnan(v), v, -inf)"
    if t[0] == "f" and t[1] == "nan_to_num" and t[2] and dict(t[3]).get("nan") == neg_inf:
        # nan_to_num also rewrites infinities unless told otherwise: -inf must stay -inf
        if dict(t[3]).get("neginf") == neg_inf:
            return t[2][0], "nan_to_num(v, nan=-inf, neginf=-inf)"
        return None, None
    return None, None


def check_target(ctx, repo, c, m, smc: bool, beta_term, z_term, construct):
    ev, ret = fold(repo, m, c, max_depth=4)
    ctx.count("functions_folded")
    ret = T.strip_raise(ret)
    if ret[0] == "s" and T.const_value(ret[2]) == 0 and m.name != "log_prob":
        ret = ret[1]  # single-particle wrapper: log_prob(z[None])[0]
    val = ret
    if smc:
        inner, how = unwrap_nan(ret)
        if inner is None:
            extra = ""
            if ret[0] == "f" and ret[1] == "nan_to_num":
                extra = " (nan_to_num without neginf=-inf turns a zero-prior -inf into the most negative *finite* number)"
            ctx.refute("C05.nan", construct, loc_of(m), f"returned tempered value is not passed through a NaN -> -inf map that keeps -inf: {T.show(ret)[:160]}{extra}")
        else:
            ctx.prove("C05.nan", construct, loc_of(m), f"NaN -> -inf by {how}")
            val = inner
    # locate the inverse call
    inv_calls = [s for s in T.subterms(val) if s and s[0] == "f" and s[1] == "method:inverse"
                 and len(s[2]) == 2 and s[2][0] == self_attr("preconditioning_transform")]
    if len(inv_calls) != 1:
        (ctx.refute if not inv_calls else ctx.unknown)("C05.id", construct, loc_of(m), f"expected one preconditioning_transform.inverse call feeding the target, found {len(inv_calls)}")
        return
    inv = inv_calls[0]
    zarg = inv[2][1]
    X, J = ("s", inv, T.const(0)), ("s", inv, T.const(1))
    objs = [o for (o, a) in ev.heap if o[0] == "obj" and a == "x"]
    objs = [o for o in dict.fromkeys(objs) if any(s == o for s in T.subterms(val))]
    if len(objs) != 1:
        # several sets (e.g. a sub-selection evaluated separately) is a shape this rule cannot decide: undecided, not a violation
        (ctx.refute if not objs else ctx.unknown)("C05.id", construct, loc_of(m), f"expected one sample set carrying the evaluated point, found {len(objs)}")
        return
    o = objs[0]
    bad = []
    if ev.heap[(o, "x")] != X:
        bad.append(f"the sample set is built from {T.show(ev.heap[(o, 'x')])[:100]}, not from the pre-image x of z")
    if zarg != z_term and not (zarg[0] == "f" and z_term in zarg[2]):
        bad.append(f"inverse map applied to {T.show(zarg)[:80]}, not to the kernel's point")
    L = ("f", "method:_log_likelihood", (SELF, o), ())
    P = ("f", "method:log_prior", (SELF, o), ())
    Q = ("f", "method:log_prob", (self_attr("prior_flow"), X), ())
    if smc:
        want = spec("(1 - b) * Q + b * (L + P) + J", b=beta_term, Q=Q, L=L, P=P, J=J)
        form = "(1-beta)*log q(x) + beta*(log L(x) + log pi(x)) + log|det dx/dz|"
    else:
        want = spec("L + P + J", L=L, P=P, J=J)
        form = "log L(x) + log pi(x) + log|det dx/dz|"
    if val != want and not bad:
        lf_g, lf_w = _lf(val), _lf(want)
        for k in set(lf_g) | set(lf_w):
            if lf_g.get(k, 0) != lf_w.get(k, 0):
                bad.append(f"term {T.show(k)[:90] if k != () else 'const'}: coefficient {lf_g.get(k, 0)}, expected {lf_w.get(k, 0)}")
    ctx.decide(not bad, "C05.id", construct, loc_of(m), f"target == {form}", "; ".join(bad[:4]))


def _lf(t):
    out = {}
    for m, c in (T._as_dict(t)).items():
        out[T._mk({m: 1}) if m != () else ()] = c
    return out


def temp_rule(ctx):
    """mutate(resample(population, b), b) at every call site of the SMC driver (loop and final enlargement)"""
    repo = ctx.repo
    smc = repo.cls(SMC)
    # ---- the temperature handed to the kernel is the one the population was just resampled to (in the loop and in the final enlargement)
    from .smcloop import fold_sample
    smp = smc.methods["sample"]
    n_mut = 0
    for final in (False, True):
        sf = fold_sample(repo, resumed=False, final=final)
        ctx.count("functions_folded")
        rs = {T.strip_raise(e.result): e for e in sf.events("method:resample")}
        for e in sf.events(".mutate"):
            if len(e.args) < 2:
                continue
            inl = sf.in_loop(e.node)
            if final == inl:
                continue  # the loop's call site is judged in the first fold, the enlargement's in the second
            n_mut += 1
            pop, b = T.strip_raise(e.args[0]), e.args[1]
            src = rs.get(pop)
            where = "loop" if inl else "final"
            if src is None or len(src.args) < 2:
                ctx.unknown("C05.temp", smp.ident, loc_of(smp, e.node), f"the population handed to mutate ({T.show(pop)[:100]}) is not the result of a resample(...) call of this function", disc=where)
                continue
            ctx.decide(src.args[1] == b, "C05.temp", smp.ident, loc_of(smp, e.node),
                       f"[{where}] mutate(resample(population, b), b): the kernel's target is tempered at the temperature of the population it moves ({T.show(b)[:40]})",
                       f"[{where}] the population was resampled to temperature {T.show(src.args[1])[:80]} but the kernel is handed temperature {T.show(b)[:80]}: "
                       "its target is the tempered density of a different temperature than the one the particles are distributed at", disc=where)
    ctx.floor("mutate call sites of the SMC driver", n_mut, 2)



def names_rule(ctx):
    """C05.names: every sample set a sampler builds -- in particular the one the kernel target hands to the user's prior and likelihood -- carries the run's
    parameter names.  A set built without them has the default names x_0, x_1, ...: a prior or likelihood that looks its columns up by name
    (samples.to_dict()["mass"]) then works for the initial population and raises inside the kernel target."""
    import ast as _ast
    repo = ctx.repo
    base = repo.cls("aspire.samplers.base:Sampler")
    n_sites = 0
    for c in repo.subclasses(base):
        for m in c.methods.values():
            for n in walk_no_nested(m.node):
                if isinstance(n, _ast.Call) and isinstance(n.func, _ast.Name) and n.func.id in ("Samples", "SMCSamples", "BaseSamples"):
                    n_sites += 1
                    kw = {k.arg: k.value for k in n.keywords}
                    pv = kw.get("parameters")
                    ok = (pv is not None and not (isinstance(pv, _ast.Constant) and pv.value is None)) or None in kw
                    if not ok:
                        # judged only when the set reaches the user's prior / likelihood from here (a scratch set that never does is not part of the target)
                        tgt_ = next((a_.targets[0].id for a_ in walk_no_nested(m.node) if isinstance(a_, _ast.Assign) and a_.value is n and len(a_.targets) == 1
                                     and isinstance(a_.targets[0], _ast.Name)), None)
                        reaches = tgt_ is None or any(isinstance(c_, _ast.Call) and isinstance(c_.func, _ast.Attribute) and c_.func.attr in ("log_prior", "log_likelihood", "_log_likelihood", "_log_prior")
                                                      and any(isinstance(x_, _ast.Name) and x_.id == tgt_ for x_ in c_.args) for c_ in walk_no_nested(m.node))
                        if not reaches:
                            ctx.prove("C05.names", m.ident, loc_of(m, n), f"{n.func.id}(...) without names is never handed to the user's prior / likelihood in this function", disc=f"{n.func.id}#scratch{n.lineno - m.node.lineno}")
                            continue
                    rank = sum(1 for o in walk_no_nested(m.node) if isinstance(o, _ast.Call) and isinstance(o.func, _ast.Name) and o.func.id == n.func.id and o.lineno < n.lineno)
                    ctx.decide(ok, "C05.names", m.ident, loc_of(m, n), f"{n.func.id}(...) receives the run's parameter names",
                               f"{n.func.id}(...) at line {n.lineno} is built without parameters=: the set handed to the user's prior / likelihood from here has the default names "
                               "x_0, x_1, ..., while every other evaluation (initial population, mutate) passes the real names -- a callable that addresses its columns by name "
                               "raises KeyError inside the kernel target only", disc=f"{n.func.id}#{rank}")
    ctx.floor("sample-set constructions inside samplers (names)", n_sites, 4)


def share_rule(ctx):
    repo = ctx.repo
    # ---- the proposal's fitted data transform has one owner: the flow it was built for.  Handing that object to another component that calls fit()
    #      on it (the flow-based preconditioning refits its transform at every SMC iteration) changes the proposal density q under the run, while the
    #      stored log_q values and the (1 - beta) q term of the target were computed with the earlier fit.
    import ast as _ast
    from ..model import walk_no_nested as _wnn
    escapes = []
    n_reads = 0
    for f_ in repo.all_functions():
        if f_.ident.startswith("aspire.flows"):
            continue
        par_ = None
        for n_ in _wnn(f_.node):
            if isinstance(n_, _ast.Attribute) and n_.attr == "data_transform" and isinstance(n_.ctx, _ast.Load):
                if par_ is None:
                    par_ = {ch: p_ for p_ in _ast.walk(f_.node) for ch in _ast.iter_child_nodes(p_)}
                n_reads += 1
                pa = par_.get(n_)
                if isinstance(pa, _ast.Attribute) and pa.value is n_:
                    continue  # x.data_transform.<method / attribute>: used in place, not handed on
                escapes.append((f_, n_))
            if isinstance(n_, _ast.Call) and isinstance(n_.func, _ast.Name) and n_.func.id == "getattr" and len(n_.args) >= 2 and isinstance(n_.args[1], _ast.Constant) and n_.args[1].value == "data_transform":
                n_reads += 1
                escapes.append((f_, n_))
    fpt = repo.modules["aspire.transforms"].classes.get("FlowPreconditioningTransform")
    not_fresh = []
    if fpt is not None and "__init__" in fpt.methods:
        ini_ = fpt.methods["__init__"]
        for n_ in _wnn(ini_.node):
            if isinstance(n_, _ast.Assign) and any(isinstance(t_, _ast.Attribute) and t_.attr == "_data_transform" for t_ in n_.targets):
                v_ = n_.value
                if isinstance(v_, _ast.Name):
                    defs_ = [d_ for d_ in _wnn(ini_.node) if isinstance(d_, _ast.Assign) and any(isinstance(t_, _ast.Name) and t_.id == v_.id for t_ in d_.targets)]
                    fresh = bool(defs_) and all(isinstance(d_.value, _ast.Call) for d_ in defs_) and v_.id not in ini_.params
                else:
                    fresh = isinstance(v_, _ast.Call)
                if not fresh:
                    not_fresh.append((ini_, n_))
    ctx.count("reads_of_a_flow_data_transform_outside_the_flow_classes", n_reads)
    bad_ = escapes + not_fresh
    ctx.decide(not bad_, "C05.share", "package", loc_of(bad_[0][0], bad_[0][1]) if bad_ else "src/aspire",
               "the proposal flow's data transform object is not handed to any other component, and the preconditioning flow builds its own",
               (f"{bad_[0][0].ident} takes the data transform object of a flow and hands it on (or the preconditioning flow accepts one from outside): the flow-based preconditioning "
                "refits its transform at every iteration, so a shared object changes the proposal density q during the run -- the target (1-beta) q + beta (L + P) is then evaluated "
                "with a q other than the one the population's log_q and weights came from") if bad_ else "", disc="shared-transform")


def run(ctx):
    repo = ctx.repo
    smc = repo.cls(SMC)
    mcmc = repo.cls(MCMC)
    S = repo.cls("aspire.samples:SMCSamples")

    # tempered density of a population
    m = S.resolve("log_p_t")
    ev, ret = fold(repo, m, S)
    ctx.count("functions_folded")
    b = T.atom(m.params[1])
    want = spec("(1 - b) * Q + b * (L + P)", b=b, Q=self_attr("log_q"), L=self_attr("log_likelihood"), P=self_attr("log_prior"))
    ctx.decide(T.strip_raise(ret) == want, "C05.pt", m.ident, loc_of(m), "log_p_t(beta) == (1-beta)*log_q + beta*(log_likelihood + log_prior)",
               f"log_p_t returns {T.show(ret)[:240]}")

    # SMC targets per concrete class
    n_targets = 0
    n_bind = 0
    seen = set()
    for c in repo.subclasses(smc):
        lp = c.resolve("log_prob")
        if lp is None:
            continue
        if (lp.ident, c.resolve("log_likelihood").ident) not in seen or lp.cls is not smc:
            seen.add((lp.ident, c.resolve("log_likelihood").ident))
            params = lp.params
            z = T.atom(params[1])
            bt = T.atom(params[2]) if len(params) > 2 else T.atom("beta")
            check_target(ctx, repo, c, lp, True, bt, z, f"{c.ident}.log_prob")
            n_targets += 1
        # single-particle wrappers of log_prob defined on the class
        for name, w in c.methods.items():
            if name != "log_prob" and "log_prob" in name and len(w.params) > 1:  # takes a point: a target; `_get_compiled_log_prob(self)` is not
                z = T.atom(w.params[1])
                bt = T.atom(w.params[2]) if len(w.params) > 2 else T.atom("beta")
                check_target(ctx, repo, c, w, True, bt, z, f"{c.ident}.{name}")
                n_targets += 1
        # binding in mutate
        mu = c.resolve("mutate")
        if mu is None or mu.cls is smc and len(mu.node.body) == 1:
            continue
        if "mutate" not in c.methods:
            continue
        ev, _ = fold(repo, mu, c)
        ctx.count("functions_folded")
        beta = T.atom("beta") if "beta" in mu.params else None
        targets = {n for n in {x.name for cc in c.mro() for x in cc.methods.values()} if "log_prob" in n}
        uses = []
        for e in ev.events:
            if e.depth != 0:
                continue
            vals = list(e.args) + [v for _, v in e.kwargs]
            for v in vals:
                if v[0] == "attr" and v[1] == SELF and v[2] in targets:
                    uses.append((e, v))
                elif (e.callee.endswith("partial") and v is vals[0]) or v[0] == "phi":
                    # the target reached through a getter / wrapper (`partial(self._compiled(), beta=beta)`, `jit(self._jax_log_prob)`)
                    inner = [s_ for s_ in T.subterms(v) if s_ and s_[0] == "attr" and s_[1] == SELF and s_[2] in targets]
                    if inner:
                        uses.append((e, inner[0]))
        if not uses or beta is None:
            ctx.unknown("C05.bind", f"{c.ident}.mutate", loc_of(mu), "no reference to the class's target density found in mutate")
            continue
        for e, v in uses:
            if e.callee.rsplit(".", 1)[-1] in ("jit", "filter_jit", "vmap", "checkpoint"):
                continue  # a compiling / vectorising wrapper: the wrapped target is judged where it is bound to a temperature
            kw = dict(e.kwargs)
            if e.callee.endswith("partial"):
                bound = kw.get("beta") or (e.args[1] if len(e.args) > 1 else None)
            else:
                a = kw.get("args")
                bound = a[1][0] if a is not None and a[0] == "t" and len(a[1]) == 1 else None
            ctx.decide(bound == beta, "C05.bind", f"{c.ident}.mutate", loc_of(mu, e.node),
                       f"kernel target self.{v[2]} bound to the parameter beta via {e.callee}",
                       f"kernel target self.{v[2]} is bound to {T.show(bound) if bound else 'nothing'} instead of mutate's beta parameter", disc=e.callee)
            n_bind += 1
            if e.callee.endswith("partial"):
                bound_term = e.result
                reach = [k for k in ev.events if k.depth == 0 and k is not e and any(bound_term == a for a in list(k.args) + [x for _, x in k.kwargs])]
                ctx.decide(bool(reach), "C05.bind", f"{c.ident}.mutate", loc_of(mu, e.node),
                           f"the bound target is handed to the kernel ({reach[0].callee if reach else ''})",
                           f"the target bound with {e.callee} is never handed to a kernel constructor: the kernel runs on a different (or no) density", disc=f"{e.callee}|reach")
    ctx.floor("SMC kernel targets", n_targets, 4)
    ctx.floor("kernel bindings in mutate", n_bind, 3)

    temp_rule(ctx)
    share_rule(ctx)
    # ---- evaluating the target leaves the kernel's point alone: neither the samplers' log_prob nor the preconditioning transform it
    #      calls writes into the array handed in (the kernel would continue from a point other than the one whose density it was given)
    from ..report import reuse as _reuse
    from . import c10 as _c10
    for mod_ in ("aspire.transforms", "aspire.samplers"):
        _reuse(ctx, lambda c, mod_=mod_: _c10.own_rule(c, only_module=mod_), ("C10.own",), "C05own",
               "ownership rule shared with C10: the density returned for z must be the density of the z the kernel still holds")
    from . import cachecoh
    cachecoh.rule(ctx, "C05.stale", ("aspire.samplers",),
                  "a kernel target compiled or cached once keeps the preconditioning map, proposal and callables of the moment it was built: later iterations "
                  "evaluate the tempered density of an earlier fit")
    # ---- closures that stand in for the user's likelihood / prior (pool wrappers, kernel targets built in a loop) must bind per iteration
    from .common import late_bound_closures
    lb = []
    n_fn = 0
    for f_ in repo.all_functions():
        mod_ = f_.ident.split(":")[0]
        if not (mod_.startswith("aspire.samplers") or mod_ in ("aspire.utils", "aspire.aspire")):
            continue
        n_fn += 1
        lb += [(f_, c_, L_, v_) for c_, L_, v_ in late_bound_closures(f_)]
    ctx.count("functions_scanned_for_late_binding", n_fn)
    ctx.decide(not lb, "C05.bind", "package", loc_of(lb[0][0], lb[0][1]) if lb else "src/aspire",
               "no closure created in a loop reads a loop variable late (every wrapper of the likelihood / prior / target is bound to its own callable)",
               (f"{lb[0][0].ident}: a closure created inside the loop at line {lb[0][2].lineno} reads the loop variable `{lb[0][3]}` as a free variable: after the loop every such closure "
                "calls the value of the last iteration -- e.g. the wrapper installed as the likelihood evaluates the prior, so the kernel target counts one term twice and drops the other") if lb else "",
               disc="late-binding")

    names_rule(ctx)
    # ---- a NaN anywhere in the target's ingredients ends as -inf at that point, never as an exception: the target builders (log_prob, and the methods of the
    #      sampler they call) contain no `raise` that is conditioned on an isnan() test.  A check that is right for mutate() -- "log proposal contains NaN" -- raises
    #      from inside the kernel when it is shared with the target, and the batch loses the finite values of its other points.
    import ast as _ast3
    smc_ = repo.cls("aspire.samplers.smc.base:SMCSampler")
    bad_raise = []
    n_tb = 0
    for cls_ in [smc_] + list(repo.subclasses(smc_, strict=True)) + [repo.cls("aspire.samplers.mcmc:MCMCSampler")]:
        lp_ = cls_.resolve("log_prob")
        if lp_ is None:
            continue
        todo, seen_ = [lp_], set()
        while todo:
            f_ = todo.pop()
            if f_.ident in seen_:
                continue
            seen_.add(f_.ident)
            n_tb += 1
            for n_ in walk_no_nested(f_.node):
                if isinstance(n_, _ast3.If) and any(isinstance(x_, _ast3.Attribute) and x_.attr == "isnan" for x_ in _ast3.walk(n_.test)) and any(isinstance(b_, _ast3.Raise) for b_ in _ast3.walk(n_)):
                    bad_raise.append((f_, n_, lp_))
                if isinstance(n_, _ast3.Call) and isinstance(n_.func, _ast3.Attribute) and isinstance(n_.func.value, _ast3.Name) and n_.func.value.id == f_.params[0] \
                        and n_.func.attr not in ("log_prior", "log_likelihood"):
                    h_ = cls_.resolve(n_.func.attr)
                    if h_ is not None and len(seen_) < 12:
                        todo.append(h_)
    ctx.decide(not bad_raise, "C05.nan", bad_raise[0][2].ident if bad_raise else "aspire.samplers", loc_of(bad_raise[0][0], bad_raise[0][1]) if bad_raise else "src/aspire/samplers",
               f"no target builder raises on a NaN ingredient ({n_tb} functions reachable from the log_prob methods)",
               (f"{bad_raise[0][0].ident.split(':')[1]}, which {bad_raise[0][2].ident.split(':')[1]} runs, raises under `{_ast3.unparse(bad_raise[0][1].test)[:60]}`: a kernel proposal at which the "
                "proposal density is NaN aborts the run from inside the kernel instead of being given the target value -inf") if bad_raise else "", disc="no-raise")
    # ---- the tempered density of the sample classes (log_p_t: L^beta pi^beta q^(1-beta) in the native space) is turned into a kernel target in one place only, the
    #      sampler's log_prob(), which adds the preconditioning log-Jacobian and maps NaN to -inf.  A kernel that is handed log_p_t() directly (a pre-computed density
    #      of its starting points, say) compares densities with and without the Jacobian in its first accept / reject.
    import ast as _ast2
    n_lpt = 0
    bad_lpt = []
    for f_ in repo.all_functions():
        if not f_.ident.startswith("aspire.samplers"):
            continue
        for n_ in walk_no_nested(f_.node):
            if isinstance(n_, _ast2.Call) and isinstance(n_.func, _ast2.Attribute) and n_.func.attr in ("log_p_t", "log_p"):
                n_lpt += 1
                if f_.name == "mutate":  # a kernel driver
                    bad_lpt.append((f_, n_))
    ctx.floor("uses of the native-space tempered density inside samplers", n_lpt, 2)
    ctx.decide(not bad_lpt, "C05.id", "aspire.samplers", loc_of(bad_lpt[0][0], bad_lpt[0][1]) if bad_lpt else "src/aspire/samplers",
               f"no kernel driver (mutate) uses the native-space tempered density: kernels get their densities from log_prob() ({n_lpt} uses, all outside mutate)",
               (f"{bad_lpt[0][0].ident} calls {_ast2.unparse(bad_lpt[0][1])[:50]} in a kernel driver: that value lacks log|det dx/dz| of the preconditioning transform (and the NaN map); handed to "
                "a kernel next to values of log_prob() -- the pre-computed density of the starting points, say -- the first accept / reject of every walker compares two different densities") if bad_lpt else "",
               disc="native-density")
    # the log|det dx/dz| term is the preconditioning transform's inverse log-Jacobian
    from ..report import reuse
    from . import c04
    from . import c03
    reuse(ctx, c03.run, ("C03.map",), "C05flow", "flow-wrapper rule shared with C03: with flow preconditioning log|det dx/dz| is the wrapper's inverse log-Jacobian, "
          "which must include the flow's own data transform")
    reuse(ctx, lambda c: c04.run(c, shared=False), ("C04.deriv", "C04.anti", "C04.acc", "C04.order", "C04.alloc", "C04.wrap"), "C05jac",
          "preconditioning-transform rule shared with C04: the kernel target adds this log-Jacobian")

    # MCMC target
    lp = mcmc.methods.get("log_prob")
    if lp is None:
        raise AnalysisError("MCMCSampler.log_prob not found")
    check_target(ctx, repo, mcmc, lp, False, None, T.atom(lp.params[1]), f"{mcmc.ident}.log_prob")
    # MCMC kernels receive self.log_prob itself
    n = 0
    for c in repo.subclasses(mcmc, strict=True):
        if smc in c.mro() or "sample" not in c.methods:
            continue
        sm = c.methods["sample"]
        ev, _ = fold(repo, sm, c)
        ctx.count("functions_folded")
        hit = [e for e in ev.events if e.depth == 0 and any(v == self_attr("log_prob") for v in list(e.args) + [x for _, x in e.kwargs])]
        ctx.decide(len(hit) >= 1, "C05.bind", f"{c.ident}.sample", loc_of(sm),
                   f"kernel constructed with self.log_prob ({hit[0].callee if hit else ''})",
                   "no kernel receives self.log_prob as its target")
        n += 1
    ctx.floor("MCMC kernel constructions", n, 2)


_B = "src/aspire/samplers/smc/base.py"
_S = "src/aspire/samples.py"
_M = "src/aspire/samplers/mcmc.py"
_MP = "src/aspire/samplers/smc/minipcn.py"
_E = "src/aspire/samplers/smc/emcee.py"
_BJ = "src/aspire/samplers/smc/blackjax.py"
MUTANTS = [
    M("tempering weights swapped", _S, "return (1 - beta) * self.log_q + beta * log_p_T", "return beta * self.log_q + (1 - beta) * log_p_T", ("C05.pt", "C05.id")),
    M("tempered target drops prior", _S, "log_p_T = self.log_likelihood + self.log_prior", "log_p_T = self.log_likelihood", ("C05.pt", "C05.id")),
    M("SMC target drops Jacobian", _B, ").flatten() + samples.array_to_namespace(log_abs_det_jacobian)\n\n        log_prob = update_at_indices(", ").flatten()\n\n        log_prob = update_at_indices(", "C05.id"),
    M("SMC target subtracts Jacobian", _B, ").flatten() + samples.array_to_namespace(log_abs_det_jacobian)\n\n        log_prob = update_at_indices(", ").flatten() - samples.array_to_namespace(log_abs_det_jacobian)\n\n        log_prob = update_at_indices(", "C05.id"),
    M("final enlargement mutated at the pre-resample temperature", _B, "samples = self.mutate(final_samples, 1.0, n_steps=n_final_steps)", "samples = self.mutate(final_samples, samples.beta, n_steps=n_final_steps)", "C05.temp"),
    M("loop mutates at the previous temperature", _B, "samples = self.mutate(samples, beta)", "samples = self.mutate(samples, self.history.beta[-2] if len(self.history.beta) > 1 else 0.0)", "C05.temp"),
    M("pool wrappers built in a loop over the targets (late-binding lambda: both call the last callable)", "src/aspire/utils.py",
      "self.aspire_instance.log_likelihood = partial(\n                self.original_log_likelihood, map_fn=self.pool.map\n            )",
      "for name in [\"log_likelihood\"] + ([\"log_prior\"] if self.parallelize_prior else []):\n                original = getattr(self.aspire_instance, name)\n                setattr(self.aspire_instance, name, lambda samples, **kw: original(samples, map_fn=self.pool.map, **kw))", "C05.bind"),
    M("SMC target without NaN map", _B, "log_prob = update_at_indices(\n            log_prob, self.xp.isnan(log_prob), -self.xp.inf\n        )\n        return log_prob", "return log_prob", "C05.nan"),
    M("SMC NaN mapped to +inf", _B, "log_prob, self.xp.isnan(log_prob), -self.xp.inf", "log_prob, self.xp.isnan(log_prob), self.xp.inf", "C05.nan"),
    M("SMC target evaluates q at z", _B, "log_q = self.prior_flow.log_prob(samples.x)", "log_q = self.prior_flow.log_prob(z)", "C05.id", within="SMCSampler.log_prob"),
    M("SMC target builds samples from z", _B, "samples = SMCSamples(\n            x,\n            xp=self.xp,\n            beta=beta,", "samples = SMCSamples(\n            z,\n            xp=self.xp,\n            beta=beta,", "C05.id"),
    M("blackjax target drops Jacobian", _BJ, ").flatten() + samples.array_to_namespace(log_abs_det_jacobian)", ").flatten()", "C05.id"),
    M("blackjax NaN map inverted", _BJ, "self.xp.isnan(log_prob), -self.xp.inf, log_prob", "self.xp.isnan(log_prob), log_prob, -self.xp.inf", "C05.nan"),
    M("blackjax wrapper ignores beta", _BJ, "log_prob = self.log_prob(z_expanded, beta=beta)", "log_prob = self.log_prob(z_expanded, beta=1.0)", "C05.id"),
    M("MCMC target drops prior", _M, "samples.log_likelihood\n            + samples.log_prior\n            + samples.array_to_namespace(log_abs_det_jacobian)", "samples.log_likelihood\n            + samples.array_to_namespace(log_abs_det_jacobian)", "C05.id"),
    M("MCMC target drops Jacobian", _M, "+ samples.log_prior\n            + samples.array_to_namespace(log_abs_det_jacobian)", "+ samples.log_prior", "C05.id"),
    M("minipcn binds stale temperature", _MP, "log_prob_fn = partial(self.log_prob, beta=beta)", "log_prob_fn = partial(self.log_prob, beta=particles.beta)", "C05.bind"),
    M("emcee binds nothing", _E, "args=(beta,),", "", "C05.bind"),
    M("blackjax binds constant", _BJ, "log_prob_fn = partial(self._jax_log_prob, beta=beta)", "log_prob_fn = partial(self._jax_log_prob, beta=1.0)", "C05.bind"),
    M("minipcn override drops beta", _MP, "return super().log_prob(x, beta)", "return super().log_prob(x)", "C05.id"),
]
MUTANTS += [
    M("NaN map that also makes -inf finite", _BJ, "log_prob = self.xp.where(\n            self.xp.isnan(log_prob), -self.xp.inf, log_prob\n        )", "log_prob = self.xp.nan_to_num(log_prob, nan=-self.xp.inf)", "C05.nan"),
    M("minipcn kernel built without the target", _MP, "log_prob_fn=log_prob_fn,\n            step_fn", "log_prob_fn=self.log_prior,\n            step_fn", "C05.bind"),
]
MUTANTS += [
    M("kernel target compiled once and kept across iterations", "src/aspire/samplers/smc/blackjax.py", "log_prob_fn = partial(self._jax_log_prob, beta=beta)",
      "if getattr(self, \"_compiled\", None) is None:\n            self._compiled = jax.jit(self._jax_log_prob)\n        log_prob_fn = partial(self._compiled, beta=beta)", "C05.stale"),
]
MUTANTS += [
    M("composite inverse coerces its input instead of copying it", "src/aspire/transforms.py", "def inverse(self, x):\n        x = copy_array(x, xp=self.xp)\n        x = self.xp.atleast_2d(x)",
      "def inverse(self, x):\n        x = self.xp.asarray(x)\n        x = self.xp.atleast_2d(x)", "C05own.own"),
]
MUTANTS += [
    M("preconditioning flow reuses the proposal flow's data transform", "src/aspire/transforms.py", "self._data_transform = transform\n", "self._data_transform = kwargs.pop(\"data_transform\", None) or transform\n", "C05.share"),
]
MUTANTS += [
    M("kernel target builds its sample set without the parameter names", _B, "beta=beta,\n            dtype=self.dtype,\n            parameters=self.parameters,\n        )\n        log_q = self.prior_flow.log_prob(samples.x)", "beta=beta,\n            dtype=self.dtype,\n        )\n        log_q = self.prior_flow.log_prob(samples.x)", "C05.names"),
]

MUTANTS += [
    M("emcee is handed a pre-computed starting density without the preconditioning Jacobian", "src/aspire/samplers/smc/emcee.py", "sampler.run_mcmc(z, **kwargs)", "sampler.run_mcmc(emcee.State(z, log_prob=particles.log_p_t(beta)), **kwargs)", "C05.id"),
]

MUTANTS += [
    M("the kernel target raises when the proposal density is NaN", _B, "samples.log_q = samples.array_to_namespace(log_q)\n        samples.log_prior = self.log_prior(samples)", "samples.log_q = samples.array_to_namespace(log_q)\n        if self.xp.isnan(samples.log_q).any():\n            raise ValueError(\"Log proposal contains NaN values\")\n        samples.log_prior = self.log_prior(samples)", "C05.nan", within="SMCSampler.log_prob"),
]

NEUTRALS = [
    M("kernel target compiled afresh in every mutation step", "src/aspire/samplers/smc/blackjax.py", "log_prob_fn = partial(self._jax_log_prob, beta=beta)",
      "self._compiled = jax.jit(self._jax_log_prob)\n        log_prob_fn = partial(self._compiled, beta=beta)"),
    M("pool wrappers built in a loop with the callable bound per iteration", "src/aspire/utils.py",
      "self.aspire_instance.log_likelihood = partial(\n                self.original_log_likelihood, map_fn=self.pool.map\n            )",
      "for name in [\"log_likelihood\"]:\n                original = getattr(self.aspire_instance, name)\n                setattr(self.aspire_instance, name, lambda samples, original=original, **kw: original(samples, map_fn=self.pool.map, **kw))"),
    __import__("aspire_sa.rules.smcloop", fromlist=["HELPER_NEUTRAL"]).HELPER_NEUTRAL,
    M("NaN map via where", _B, "log_prob = update_at_indices(\n            log_prob, self.xp.isnan(log_prob), -self.xp.inf\n        )", "log_prob = self.xp.where(self.xp.isnan(log_prob), -self.xp.inf, log_prob)"),
    M("tempered density regrouped", _S, "return (1 - beta) * self.log_q + beta * log_p_T", "return self.log_q + beta * (log_p_T - self.log_q)"),
    M("SMC target via temporary", _B, "log_q = self.prior_flow.log_prob(samples.x)\n        samples.log_q = samples.array_to_namespace(log_q)", "samples.log_q = samples.array_to_namespace(self.prior_flow.log_prob(samples.x))", within="SMCSampler.log_prob"),
    M("MCMC target operand order", _M, "samples.log_likelihood\n            + samples.log_prior\n            + samples.array_to_namespace(log_abs_det_jacobian)", "samples.array_to_namespace(log_abs_det_jacobian)\n            + samples.log_prior\n            + samples.log_likelihood"),
    M("minipcn override passes keyword", _MP, "return super().log_prob(x, beta)", "return super().log_prob(x, beta=beta)"),
]

# functions the property is anchored in (auto-mutant sweep of the thorough tier)
ANCHORS = [
    'aspire.samples:SMCSamples.log_p_t',
    'aspire.samplers.smc.base:SMCSampler.log_prob',
    'aspire.samplers.smc.minipcn:MiniPCNSMC.log_prob',
    'aspire.samplers.smc.minipcn:MiniPCNSMC.mutate',
    'aspire.samplers.smc.blackjax:BlackJAXSMC.log_prob',
    'aspire.samplers.smc.blackjax:BlackJAXSMC._jax_log_prob',
    'aspire.samplers.mcmc:MCMCSampler.log_prob',
    'aspire.samplers.smc.emcee:EmceeSMC.mutate',
]
