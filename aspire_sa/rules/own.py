"""Array ownership (borrow) analysis shared by C10 / C04.

The package has exactly one primitive that writes into an existing array:
``utils.update_at_indices`` (``x[slc] = y`` with a functional fallback for JAX)
plus a handful of direct subscript stores.  A function may only write into an
array it *owns*: one it created itself (copy, arithmetic result, constructor)
-- never one that is, or may alias, a parameter, an attribute or a view of
those.  Otherwise the caller's array (the particle coordinates a sample set
caches densities for) changes under it.

Flow-sensitive, per function, over the statement tree; branches are merged with
"borrowed wins"; loops are iterated to a fixed point (two rounds suffice for a
two-point lattice).
"""

from __future__ import annotations

import ast

from ..model import walk_no_nested

OWNED, BORROWED = "owned", "borrowed"
# an item looked up in a container by key / name (h5 group[name], dict[key]): not an array view of the
# container; what it is cannot be told from the syntax, so writes through it are not judged
ELEMENT = "element"
# (a view of) an attribute of some object -- an array field of a sample set, of self, ...: certainly not a local scalar,
# so an augmented assignment to a name bound to it (`w = self.log_w; w -= c`) updates the field in place on NumPy / torch
BATTR = "borrowed-attr"

# result aliases (may share memory with) the first argument / the receiver
ALIAS_CALLS = {
    "atleast_1d", "atleast_2d", "atleast_3d", "asarray", "asanyarray", "as_tensor", "from_numpy", "from_dlpack",
    "to_numpy", "array_to_namespace", "reshape", "ravel", "squeeze", "view", "to_device", "safe_to_device",
    "astype", "contiguous", "detach", "expand_dims", "broadcast_to", "transpose", "swapaxes", "moveaxis",
    "update_at_indices", "to", "cpu", "numpy", "float", "double", "ascontiguousarray", "unsqueeze", "flatten",
}
# result is a new object
FRESH_CALLS = {
    "copy_array", "copy", "clone", "deepcopy", "zeros", "ones", "empty", "full", "zeros_like", "ones_like",
    "empty_like", "full_like", "array", "arange", "linspace", "concatenate", "stack", "vstack", "hstack",
    "where", "dict", "list", "set",
}


# methods that write into their receiver (NumPy) and the trailing-underscore convention of torch
INPLACE_METHODS = {"fill", "put", "itemset", "setfield", "sort"}
MODULE_ROOTS = {"torch", "np", "numpy", "jnp", "jax", "eqx", "xp", "scipy", "math"}
NOT_DATA = {"requires_grad_", "share_memory_", "retain_grad_"}


def _callee_name(call: ast.Call):
    f = call.func
    if isinstance(f, ast.Name):
        return f.id, None
    if isinstance(f, ast.Attribute):
        return f.attr, f.value
    return None, None


def origin_attr(e, known):
    """attribute an expression is (a view / alias of): `self.log_w`, `asarray(self.x)`, `w` bound from one of those"""
    while True:
        if isinstance(e, ast.Attribute) and e.attr not in ("T", "mT", "real"):
            return e.attr
        if isinstance(e, ast.Attribute):
            e = e.value
        elif isinstance(e, ast.Subscript):
            e = e.value
        elif isinstance(e, ast.Name):
            return known.get(e.id)
        elif isinstance(e, ast.Call) and e.args and _callee_name(e)[0] in ALIAS_CALLS:
            e = e.args[0]
        else:
            return None


def param_root(e, known):
    """parameter an expression is (a view / alias of), when it is one: `x`, `xp.atleast_2d(x)`, `x[:, 1:]`"""
    while True:
        if isinstance(e, ast.Attribute) and e.attr in ("T", "mT", "real"):
            e = e.value
        elif isinstance(e, ast.Subscript):
            e = e.value
        elif isinstance(e, ast.Name):
            return known.get(e.id)
        elif isinstance(e, ast.Call) and _callee_name(e)[0] in ALIAS_CALLS:
            name, recv = _callee_name(e)
            if e.args:
                e = e.args[0]
            elif recv is not None:
                e = recv
            else:
                return None
        else:
            return None


_SUMMARY: dict = {}  # (id(repo), callee ident) -> (status of what it may return, origin attribute)
_IN_PROGRESS: set = set()


def return_summary(repo, callee):
    """What a repository function may hand back: BATTR (an attribute of its object, or a view / alias of one -- `return self.log_q`),
    BORROWED (one of its parameters) or OWNED (a new object on every path).  Recursive calls are taken as OWNED."""
    key = (id(repo), callee.ident)
    if key in _SUMMARY:
        return _SUMMARY[key]
    if key in _IN_PROGRESS:
        return (OWNED, None)
    _IN_PROGRESS.add(key)
    try:
        o = analyse_full(callee, repo)
        st, org = OWNED, None
        for rst, rorg in o.returns:
            if rst == BATTR:
                st, org = BATTR, rorg or org
            elif rst == BORROWED and st != BATTR:
                st = BORROWED
        _SUMMARY[key] = (st, org)
    finally:
        _IN_PROGRESS.discard(key)
    return _SUMMARY[key]


class Ownership:
    def __init__(self, func_node, params, finfo=None, repo=None):
        self.func = func_node
        self.finfo, self.repo = finfo, repo
        self.returns = []  # (status, origin attribute) of every returned expression
        self._call_origin = None
        self.env = {p: BORROWED for p in params}
        self.proot = {p: p for p in params}  # local name -> parameter it aliases, when known
        self._cur_proot = None
        self.sink_root = {}  # index in self.sinks -> parameter the written array aliases (at that point), when known
        self.calls = []  # (callee name, receiver is a plain name, [status of positional args], {keyword: status})
        self.sinks = []  # (node, description, status, name)
        self.origin = {}  # local name -> attribute it was loaded from (self.log_w -> "log_w"), when known
        self._cur_origin = None
        self._cur_elem = None
        self.elem_of = {}  # local name -> (text of the item expression, parameter / attribute the container is rooted in)
        self.elem_sinks = []  # in-place updates through a name bound to an item of a borrowed container

    # ------------------------------------------------------------ expressions
    def status(self, e) -> str:
        if isinstance(e, ast.Name):
            return self.env.get(e.id, BORROWED)
        if isinstance(e, ast.Attribute):
            if e.attr in ("T", "mT", "real"):
                return self.status(e.value)
            return BATTR
        if isinstance(e, ast.Subscript):
            base = self.status(e.value)
            if base == OWNED:
                return OWNED
            idx = e.slice
            parts = idx.elts if isinstance(idx, ast.Tuple) else [idx]
            if any(isinstance(p_, ast.Slice) or (isinstance(p_, ast.Constant) and p_.value is Ellipsis) for p_ in parts):
                return base  # basic slicing: a view of the base
            return ELEMENT if base in (BORROWED, BATTR) else base
        if isinstance(e, ast.Starred):
            return self.status(e.value)
        if isinstance(e, ast.IfExp):
            a, b = self.status(e.body), self.status(e.orelse)
            return OWNED if a == b == OWNED else BORROWED
        if isinstance(e, ast.BoolOp):
            return OWNED if all(self.status(v) == OWNED for v in e.values) else BORROWED
        if isinstance(e, ast.NamedExpr):
            s = self.status(e.value)
            self.env[e.target.id] = s
            return s
        if isinstance(e, ast.Call):
            name, recv = _callee_name(e)
            if name in FRESH_CALLS:
                if name == "array" and any(k.arg == "copy" and isinstance(k.value, ast.Constant) and k.value.value is False for k in e.keywords):
                    return self.status(e.args[0]) if e.args else OWNED
                return OWNED
            if name in ALIAS_CALLS:
                # method form x.reshape(..) aliases the receiver; function form f(x, ..) aliases the first argument
                if recv is not None and not (isinstance(recv, ast.Name) and recv.id in ("xp", "np", "jnp", "torch", "numpy")) \
                        and not (isinstance(recv, ast.Attribute) and recv.attr == "xp") and name not in ("update_at_indices",):
                    if e.args and name in ("atleast_1d", "atleast_2d", "asarray", "reshape", "squeeze", "ravel", "expand_dims", "broadcast_to", "to_device", "array_to_namespace"):
                        # self.xp.atleast_2d(x) handled above; obj.array_to_namespace(x) aliases x
                        return self.status(e.args[0])
                    return self.status(recv)
                return self.status(e.args[0]) if e.args else OWNED
            # a method of the same object / a function of the package: what it may return is known from its own analysis
            summ = self._summary(e, name, recv)
            if summ is not None and summ[0] != OWNED:
                if summ[0] == BATTR:
                    self._call_origin = summ[1]
                    return BATTR
                # hands back one of its parameters: borrowed unless every array argument is the caller's own
                if any(self.status(a_) != OWNED for a_ in list(e.args) + [k.value for k in e.keywords]):
                    return BORROWED
            return OWNED  # results of other calls are new objects (assumption, see DESIGN)
        # arithmetic, comparisons, literals, comprehensions: new objects
        return OWNED

    def _summary(self, call, name, recv):
        if self.repo is None or self.finfo is None or name is None:
            return None
        callee = None
        try:
            me = self.finfo.params[0] if self.finfo.cls is not None and self.finfo.params else None
            if recv is not None and isinstance(recv, ast.Name) and recv.id == me:
                callee = self.finfo.cls.resolve(name)
            elif recv is None:
                tgt = self.repo.resolve_name(self.finfo.module, name, self.repo.function_imports(self.finfo))
                callee = tgt if hasattr(tgt, "params") and hasattr(tgt, "node") else None
        except Exception:
            return None
        if callee is None or not isinstance(getattr(callee, "node", None), (ast.FunctionDef, ast.AsyncFunctionDef)):
            return None
        if any(isinstance(x, (ast.Yield, ast.YieldFrom)) for x in ast.walk(callee.node)):
            return None
        if "property" in {getattr(d, "id", getattr(d, "attr", None)) for d in callee.node.decorator_list}:
            return None
        return return_summary(self.repo, callee)

    def _sink(self, rec, expr):
        self.sinks.append(rec)
        self.sink_root[len(self.sinks) - 1] = param_root(expr, self.proot)

    # ------------------------------------------------------------ statements
    def bind(self, target, st):
        if isinstance(target, ast.Name):
            self.env[target.id] = st
            self.elem_of.pop(target.id, None)
            if st == ELEMENT and isinstance(getattr(self, "_cur_elem", None), ast.Subscript):
                e_ = self._cur_elem
                root = param_root(e_.value, self.proot)
                org = origin_attr(e_.value, self.origin)
                self.elem_of[target.id] = (ast.unparse(e_)[:40], ("param", root) if root is not None else (("attr", org) if org is not None else None))
            self.origin[target.id] = self._cur_origin if st == BATTR else None
            self.proot[target.id] = self._cur_proot if st == BORROWED else None
        elif isinstance(target, (ast.Tuple, ast.List)):
            for t in target.elts:
                self.bind(t, st)
        elif isinstance(target, ast.Starred):
            self.bind(target.value, st)

    def scan_sinks(self, node):
        for n in ast.walk(node) if not isinstance(node, list) else [x for s in node for x in ast.walk(s)]:
            if isinstance(n, ast.Call):
                name, recv_ = _callee_name(n)
                if name is not None and (recv_ is None or isinstance(recv_, ast.Name)):
                    self.calls.append((name, recv_.id if recv_ is not None else None, [self.status(a) for a in n.args], {k.arg: self.status(k.value) for k in n.keywords if k.arg}))
                if name == "update_at_indices" and n.args:
                    a = n.args[0]
                    self._sink((n, f"update_at_indices({ast.unparse(a)[:40]}, ...)", self.status(a), ast.unparse(a)[:40]), a)
                elif name is not None and isinstance(n.func, ast.Attribute) and (
                        name in INPLACE_METHODS or (name.endswith("_") and not name.startswith("_") and name not in NOT_DATA)):
                    r = n.func.value
                    root = r
                    while isinstance(root, ast.Attribute):
                        root = root.value
                    if isinstance(root, ast.Name) and root.id in MODULE_ROOTS:
                        continue  # a library function, not a method of an array
                    if (isinstance(r, ast.Attribute) and r.attr == "xp") or (isinstance(r, ast.Name) and r.id == "xp"):
                        continue  # xp.sort(a) / self.xp.sort(a): the array namespace's function (returns a new array)
                    self._sink((n, f"{ast.unparse(r)[:40]}.{name}(...)", self.status(r), ast.unparse(r)[:40]), r)
                for k in n.keywords:
                    if k.arg == "out":
                        self._sink((n, f"{name}(..., out={ast.unparse(k.value)[:40]})", self.status(k.value), ast.unparse(k.value)[:40]), k.value)

    def store_sink(self, target, node):
        if isinstance(target, ast.Subscript) and isinstance(target.value, ast.Name):
            idx = target.slice
            if isinstance(idx, ast.Constant) and isinstance(idx.value, str):
                return  # dictionary key
            self._sink((node, f"{ast.unparse(target)[:40]} = ...", self.status(target.value), target.value.id), target.value)

    def block(self, stmts):
        for s in stmts:
            self.stmt(s)

    def _merge(self, envs):
        keys = set().union(*[set(e) for e in envs])
        out = {}
        for k in keys:
            vals = [e.get(k) for e in envs]
            out[k] = OWNED if all(v == OWNED for v in vals) else (BORROWED if BORROWED in vals or None in vals else (BATTR if BATTR in vals else ELEMENT))
        # a name unbound on one path keeps the status of the paths that bind it only if all agree
        for k in keys:
            vals = [e[k] for e in envs if k in e]
            if len(vals) < len(envs) and all(v == OWNED for v in vals):
                out[k] = OWNED
        return out

    def stmt(self, s):
        if isinstance(s, (ast.FunctionDef, ast.AsyncFunctionDef, ast.ClassDef)):
            return
        if isinstance(s, ast.Assign):
            self.scan_sinks(s.value)
            st = self.status(s.value)
            self._cur_origin = origin_attr(s.value, self.origin)
            if self._cur_origin is None and st == BATTR and isinstance(s.value, ast.Call):
                self._cur_origin = self._call_origin
            self._cur_proot = param_root(s.value, self.proot)
            self._cur_elem = s.value if st == ELEMENT else None
            for t in s.targets:
                self.store_sink(t, s)
                self.bind(t, st)
        elif isinstance(s, ast.AnnAssign):
            if s.value is not None:
                self.scan_sinks(s.value)
                self.store_sink(s.target, s)
                self._cur_origin = origin_attr(s.value, self.origin)
                self._cur_proot = param_root(s.value, self.proot)
                self.bind(s.target, self.status(s.value))
        elif isinstance(s, ast.AugAssign):
            self.scan_sinks(s.value)
            self.store_sink(s.target, s)
            if isinstance(s.target, ast.Name) and self.env.get(s.target.id) == BATTR:
                self.sinks.append((s, f"{s.target.id} {type(s.op).__name__.lower()}= ... (in place)", BATTR, s.target.id))
            elif isinstance(s.target, ast.Name) and self.env.get(s.target.id) == ELEMENT and s.target.id in self.elem_of:
                # `t = values[0]; t += v`: when the items are arrays (0-d backend scalars are) the update happens inside the container's first item
                base, root = self.elem_of[s.target.id]
                self.elem_sinks.append((s, f"{s.target.id} {type(s.op).__name__.lower()}= ... (in place, `{s.target.id}` is the item {base})", root, s.target.id))
        elif isinstance(s, ast.If):
            self.scan_sinks(s.test)
            base = dict(self.env)
            pr0 = dict(self.proot)
            self.block(s.body)
            e1 = self.env
            pr1 = self.proot
            self.env = dict(base)
            self.proot = dict(pr0)
            self.block(s.orelse)
            self.env = self._merge([e1, self.env])
            self.proot = {k: (v if pr1.get(k) == v else None) for k, v in self.proot.items()}
        elif isinstance(s, (ast.For, ast.AsyncFor, ast.While)):
            if isinstance(s, ast.While):
                self.scan_sinks(s.test)
            else:
                self.scan_sinks(s.iter)
            base = dict(self.env)
            n0 = len(self.sinks)
            n0e = len(self.elem_sinks)
            n0c = len(self.calls)
            for _ in range(2):
                if not isinstance(s, ast.While):
                    self._cur_proot = None
                    self.bind(s.target, BORROWED)
                del self.sinks[n0:]
                del self.elem_sinks[n0e:]
                del self.calls[n0c:]
                self.block(s.body)
                self.env = self._merge([base, self.env])
                base = dict(self.env)
            self.block(s.orelse)
        elif isinstance(s, ast.Try):
            base = dict(self.env)
            self.block(s.body)
            envs = [self.env]
            for h in s.handlers:
                self.env = self._merge([base, envs[0]])
                self.block(h.body)
                envs.append(self.env)
            self.env = self._merge(envs)
            self.block(s.orelse)
            self.block(s.finalbody)
        elif isinstance(s, (ast.With, ast.AsyncWith)):
            for it in s.items:
                self.scan_sinks(it.context_expr)
                if it.optional_vars is not None:
                    self.bind(it.optional_vars, OWNED)
            self.block(s.body)
        elif isinstance(s, (ast.Return, ast.Expr)):
            if s.value is not None:
                self.scan_sinks(s.value)
                if isinstance(s, ast.Return):
                    for v_ in (s.value.elts if isinstance(s.value, ast.Tuple) else [s.value]):
                        st_ = self.status(v_)
                        org_ = origin_attr(v_, self.origin) or (self._call_origin if st_ == BATTR and isinstance(v_, ast.Call) else None)
                        self.returns.append((st_, org_))
        elif hasattr(ast, "Match") and isinstance(s, ast.Match):
            base = dict(self.env)
            envs = []
            for c in s.cases:
                self.env = dict(base)
                self.block(c.body)
                envs.append(self.env)
            self.env = self._merge(envs + [base])
        else:
            for ch in ast.iter_child_nodes(s):
                if isinstance(ch, ast.expr):
                    self.scan_sinks(ch)


def sink_origin(o: "Ownership", name_expr: str):
    return o.origin.get(name_expr)


def analyse(finfo, with_origin: bool = False):
    """Sinks of one function: [(node, description, status, name)] (+ origin attribute when asked)."""
    node = finfo.node
    a = node.args
    params = [x.arg for x in a.posonlyargs + a.args + a.kwonlyargs]
    if a.vararg:
        params.append(a.vararg.arg)
    if a.kwarg:
        params.append(a.kwarg.arg)
    o = Ownership(node, params)
    o.block(node.body)
    if with_origin:
        return [(n, d, st, nm, o.origin.get(nm)) for n, d, st, nm in o.sinks]
    return o.sinks


def analyse_full(finfo, repo=None):
    """The Ownership object of one function after the walk (sinks, recorded call sites, parameter roots).
    With *repo*, results of calls to methods of the same object / functions of the package get the callee's return summary."""
    node = finfo.node
    a = node.args
    params = [x.arg for x in a.posonlyargs + a.args + a.kwonlyargs]
    if a.vararg:
        params.append(a.vararg.arg)
    if a.kwarg:
        params.append(a.kwarg.arg)
    o = Ownership(node, params, finfo, repo)
    o.block(node.body)
    return o
