"""C16 -- slicing, concatenating, pickling and dict-converting samples keep rows aligned."""

from __future__ import annotations

import ast

from .. import AnalysisError
from .. import terms as T
from ..evalr import Evaluator
from ..model import walk_no_nested
from ..mutants import M
from .carry import SAMPLES_MOD, CLASSES, rebuilds, derives_from
from .common import SELF, fold, loc_of, self_attr

META = {
    "explanation": (
        "Per concrete sample class (methods resolved through the MRO, so inherited code is analysed once per subclass): "
        "__getitem__ selects every per-sample constructor field, and log_w / weights for the weighted class, with the one "
        "index argument and carries (does not recompute) log_evidence / log_evidence_error / beta from the source; "
        "concatenate joins every per-sample field over the same list along axis 0 with an all-or-none guard on that same "
        "field and carries parameters, dtype and the class's scalar fields; pickling replaces only 'xp' in __getstate__ and "
        "__setstate__ restores it from the array; the keys to_dict emits for a class are accepted by that class's from_dict."
    ),
    "not_decided": "value equality under arbitrary operation sequences (reference-model comparison)",
    "assumptions": ["array indexing and xp.concatenate have NumPy semantics"],
}

SCALARS = ("beta", "log_evidence", "log_evidence_error")


def shape_rule(ctx, repo):
    """C16.shape: the constructor stores every per-sample field as a value- and shape-preserving conversion of what it was given.  All
    selections / concatenations / conversions build their result through it; a rank-changing step (`.squeeze()` without an axis drops the
    *sample* axis of a one-row set, `.reshape(-1)` on x, `.item()`) leaves x with N rows and the log-densities with another shape."""
    n = 0
    for cn in CLASS_NAMES:
        C = repo.cls(f"aspire.samples:{cn}")
        m = C.resolve("__post_init__")
        if m is None:
            continue
        # methods the evaluator otherwise treats as value preserving are rank-changing here
        ev, _ = fold(repo, m, C, opaque_methods={"squeeze", "ravel", "flatten", "item", "tolist", "reshape"})
        for f in C.init_fields():
            if not f.per_sample:
                continue
            n += 1
            v = ev.heap.get((SELF, f.name), self_attr(f.name))
            leaves = [l for l in T.phi_leaves(T.strip_raise(v))]
            ok = all(l == self_attr(f.name) or l == T.NONE for l in leaves)
            ctx.decide(ok, "C16.shape", f"{C.ident}.__post_init__", loc_of(m), f"{cn}: `{f.name}` is stored as a shape-preserving conversion of the value given",
                       f"{cn}: the constructor stores {f.name} = {T.show(v)[:120]}: not a shape-preserving conversion of the value it was given (a squeeze / reshape / reduction changes the "
                       "rank for some N, e.g. a one-row selection gets 0-d log-densities next to an x of shape (1, d)), so the rows of the fields no longer line up", disc=f"{cn}|{f.name}")
    ctx.floor("per-sample fields stored by the constructors", n, 12)


CLASS_NAMES = ("BaseSamples", "Samples", "SMCSamples")


def weights_guard_rule(ctx, repo):
    """C16.shape (weights clause): a Samples set has weights exactly when it has all three densities -- whatever its size.  from_dict and concatenate
    rely on the constructor to rebuild log_w / weights; a guard that also looks at the number of rows makes a one-row (or empty) piece of a
    weighted set come back unweighted from a dictionary round trip or a concatenation."""
    C = repo.cls("aspire.samples:Samples")
    m = C.methods.get("__post_init__")
    if m is None:
        ctx.unknown("C16.shape", C.ident, "src/aspire/samples.py", "Samples.__post_init__ not found", disc="weights-guard")
        return
    guards = [n for n in walk_no_nested(m.node) if isinstance(n, ast.If) and any(
        isinstance(c, ast.Call) and isinstance(c.func, ast.Attribute) and c.func.attr == "compute_weights" for b in n.body + n.orelse for c in ast.walk(b))]
    if len(guards) != 1:
        ctx.unknown("C16.shape", m.ident, loc_of(m), f"expected one guarded compute_weights() call in the constructor, found {len(guards)}", disc="weights-guard")
        return
    test = guards[0].test
    # names used in the test, followed through one local assignment
    exprs = [test]
    for x in ast.walk(test):
        if isinstance(x, ast.Name):
            exprs += [a.value for a in walk_no_nested(m.node) if isinstance(a, ast.Assign) and any(isinstance(t, ast.Name) and t.id == x.id for t in a.targets)]
    sized = [x for e in exprs for x in ast.walk(e) if (isinstance(x, ast.Call) and getattr(x.func, "id", None) == "len") or (isinstance(x, ast.Attribute) and x.attr in ("shape", "size", "ndim"))]
    ctx.decide(not sized, "C16.shape", m.ident, loc_of(m, guards[0]), "the constructor computes the weights whenever the three densities are present (no condition on the size of the set)",
               f"the constructor computes the weights only under `{ast.unparse(test)[:80]}`, which looks at the size of the set: a one-row piece of a weighted set keeps its weights through "
               "selection (which re-attaches them) but comes back with log_w = weights = None from to_dict / from_dict and from concatenate, which rebuild through the constructor", disc="weights-guard")


def run(ctx):
    repo = ctx.repo
    from ..report import reuse
    from . import c15 as _c15
    reuse(ctx, _c15.a2n_rule, ("C15.a2n",), "C16a2n", "conversion rule shared with C15: from_dict() and the constructors store every field through array_to_namespace(); a path that returns its argument "
          "unconverted leaves a field in the namespace it came from, so a set rebuilt from its own dictionary holds arrays of two libraries and a partition of it no longer concatenates")
    shape_rule(ctx, repo)
    weights_guard_rule(ctx, repo)
    # ---- the flat dictionary layout puts parameter columns and fields into one key space: a parameter named like a field (a run with a parameter called `beta`)
    #      overwrites that field, and from_dict() -- which takes the parameter columns out by name -- hands the constructor a set without it.  Accepted: a test
    #      of the two key sets against each other (raise / rename) before they are merged.
    B_ = repo.cls("aspire.samples:BaseSamples")
    td = B_.resolve("to_dict")
    if td is None:
        ctx.unknown("C16.dict", B_.ident, "src/aspire/samples.py", "to_dict not found", disc="flat-keys")
    else:
        merges = [n_ for n_ in walk_no_nested(td.node) if isinstance(n_, ast.Call) and isinstance(n_.func, ast.Attribute) and n_.func.attr == "update" and n_.args]
        guarded = any(isinstance(n_, ast.If) and any(isinstance(x_, ast.Raise) for x_ in ast.walk(n_)) and any(
            isinstance(x_, ast.Attribute) and x_.attr == "parameters" for x_ in ast.walk(n_.test)) for n_ in walk_no_nested(td.node))
        ctx.decide(not merges or guarded, "C16.dict", td.ident, loc_of(td, merges[0] if merges else None), "the flat layout cannot lose a field to a parameter of the same name",
                   f"`{ast.unparse(merges[0])[:40]}` merges the parameter columns into the dictionary of fields without comparing the two key sets: a parameter named like a field "
                   "(SMCSamples with a parameter called `beta`) replaces that field, and from_dict(to_dict(s)) -- the default, flat layout -- returns a set whose temperature is None"
                   if merges else "", disc="flat-keys")
    rbs = rebuilds(repo)
    ctx.count("rebuild_methods_folded", len(rbs))
    n_get = n_cat = 0
    for rb in rbs:
        C, m = rb.cls, rb.method
        construct = f"{C.name}.{m.name}"
        loc = loc_of(m, rb.node)
        if m.name == "__getitem__":
            n_get += 1
            idx = T.atom(m.params[1])
            for f in rb.result_cls.init_fields():
                if not f.per_sample:
                    continue
                v = rb.values.get(f.name)
                want = ("s", self_attr(f.name), idx)
                if v is None:
                    ctx.refute("C16.idx", construct, loc, f"{f.name} is not selected: the selection drops it", disc=f.name)
                    continue
                leaves = [l for l in T.phi_leaves(v) if l != T.NONE]
                ok = leaves == [want] and (v == want or (v[0] == "phi" and T.select(v, ("is", self_attr(f.name), T.NONE), False) == want))
                ctx.decide(ok, "C16.idx", construct, loc, f"{f.name} == self.{f.name}[idx] (None stays None)",
                           f"{f.name} is selected as {T.show(v)[:140]}, not self.{f.name}[idx]: rows of the selection no longer line up", disc=f.name)
            # non-init per-sample fields of the weighted class
            for f in rb.result_cls.fields():
                if f.per_sample and not f.init:
                    v = rb.values.get(f.name)
                    want = ("s", self_attr(f.name), idx)
                    has = ("not", ("is", self_attr("log_w"), T.NONE))
                    vv = T.select(v, has, True) if v is not None else None
                    if vv is not None and vv[0] == "phi":
                        vv = T.select(vv, ("is", self_attr(f.name), T.NONE), False)
                    ctx.decide(vv == want, "C16.idx", construct, loc, f"{f.name} == self.{f.name}[idx] when the source carries weights",
                               f"{f.name} of the selection is {T.show(vv)[:140] if vv else 'not set'}, not self.{f.name}[idx]", disc=f.name)
            for s in SCALARS:
                if any(f.name == s for f in rb.result_cls.init_fields()):
                    v = rb.values.get(s)
                    ctx.decide(v == self_attr(s), "C16.ev", construct, loc, f"{s} carried from the source set",
                               f"{s} of the selection is {T.show(v)[:100] if v else 'not carried (reset to its default)'}", disc=s)
            for s in ("parameters", "dtype"):
                v = rb.values.get(s)
                ctx.decide(v == self_attr(s), "C16.meta", construct, loc, f"{s} carried", f"{s} of the selection is {T.show(v)[:80] if v else 'dropped'}", disc=s)
        elif m.name == "concatenate":
            n_cat += 1
            lst = T.atom(m.params[1])
            el = ("f", "elem", (lst,), ())
            for f in rb.result_cls.init_fields():
                if not f.per_sample:
                    continue
                v = rb.values.get(f.name)
                joined = ("f", "concatenate", (("f", "listcomp", (("attr", el, f.name), ("t", (lst, ("t", ())))), ()),), (("axis", T.ZERO),))
                if v is None:
                    ctx.refute("C16.cat", construct, loc, f"{f.name} is not concatenated", disc=f.name)
                    continue
                pieces = ("f", "listcomp", (("attr", el, f.name), ("t", (lst, ("t", ())))), ())
                guard = ("f", "builtins.all", (("f", "listcomp", (("not", ("is", ("attr", el, f.name), T.NONE)), ("t", (lst, ("t", ())))), ()),), ())
                # the same all-or-none guard written over the collected pieces: any(v is None for v in pieces) -> None
                guard_any = ("f", "builtins.any", (("f", "listcomp", (("is", ("f", "elem", (pieces,), ()), T.NONE), ("t", (pieces, ("t", ())))), ()),), ())
                accepted = [T.phi(guard, joined, T.NONE), T.phi(guard_any, T.NONE, joined)]
                if f.name == "x":
                    accepted.append(joined)  # the coordinates are never None
                ok = v in accepted
                ctx.decide(ok, "C16.cat", construct, loc, f"{f.name} == concatenate([s.{f.name} for s in samples], axis=0)" + ("" if f.name == "x" else " iff every piece has it"),
                           f"{f.name} is joined as {T.show(v)[:200]}", disc=f.name)
            for s in ("parameters", "dtype") + tuple(x for x in SCALARS if any(f.name == x for f in rb.result_cls.init_fields())):
                v = rb.values.get(s)
                if s in ("log_evidence", "log_evidence_error") and any(f.name == "log_w" for f in rb.result_cls.fields()):
                    ctx.prove("C16.cat", construct, loc, f"{s} is recomputed from the concatenated weights of the weighted class", disc=s, trivial=True)
                    continue
                ok = v is not None and derives_from(v, [("s", lst, T.const(0)), el, lst], s, allow_none=True)
                ctx.decide(ok, "C16.cat", construct, loc, f"{s} carried from the pieces",
                           f"{s} is {T.show(v)[:80] if v else 'dropped'}: concatenating the pieces of a partition does not restore the original {s}", disc=s)
    ctx.floor("__getitem__ per class", n_get, 3)
    ctx.floor("concatenate per class", n_cat, 3)

    # ---- pickling
    B = repo.cls(f"{SAMPLES_MOD}:BaseSamples")
    for cn in CLASSES:
        C = repo.cls(f"{SAMPLES_MOD}:{cn}")
        gs, ss = C.resolve("__getstate__"), C.resolve("__setstate__")
        if gs is None or ss is None:
            ctx.prove("C16.pkl", cn, f"src/aspire/samples.py:{C.node.lineno}", "default pickling (whole __dict__)", trivial=True)
            continue
        replaced = set()
        for n in walk_no_nested(gs.node):
            if isinstance(n, ast.Subscript) and isinstance(n.ctx, ast.Store) and isinstance(n.value, ast.Name) and isinstance(n.slice, ast.Constant):
                replaced.add(n.slice.value)
        restored = set()
        for n in walk_no_nested(ss.node):
            if isinstance(n, ast.Subscript) and isinstance(n.ctx, ast.Store) and isinstance(n.value, ast.Name) and isinstance(n.slice, ast.Constant):
                restored.add(n.slice.value)
        upd = any(isinstance(n, ast.Call) and isinstance(n.func, ast.Attribute) and n.func.attr == "update"
                  and isinstance(n.func.value, ast.Attribute) and n.func.value.attr == "__dict__" for n in walk_no_nested(ss.node))
        copies = any(isinstance(n, ast.Call) and isinstance(n.func, ast.Attribute) and n.func.attr == "copy"
                     and isinstance(n.func.value, ast.Attribute) and n.func.value.attr == "__dict__" for n in walk_no_nested(gs.node))
        ok = replaced <= restored and upd and copies
        ctx.decide(ok, "C16.pkl", f"{cn}.__getstate__/__setstate__", loc_of(ss),
                   f"keys replaced for pickling {sorted(replaced)} are restored {sorted(restored)}; state is the whole __dict__",
                   f"keys replaced in __getstate__ {sorted(replaced)} but only {sorted(restored)} restored in __setstate__ (update of __dict__: {upd}, copy of __dict__: {copies})")
        # xp restored from the array itself
        ev, _ = fold(repo, ss, C)
        st = ev.last_state.env.get(ss.params[1])
        okx = st is not None and any(s and s[0] == "f" and "array_namespace" in s[1] for s in T.subterms(st))
        ctx.decide(okx, "C16.pkl", f"{cn}.__setstate__", loc_of(ss), "xp restored from the namespace of the stored x",
                   "xp is not restored from the stored array on unpickling", disc="xp")

    # ---- dict conversion
    # (dict_order below is used by C13 only: in memory a dict keeps its insertion order, so stacking in
    # mapping order still restores x; it matters once the HDF5 layer, which sorts keys, sits in between)
    dict_roundtrip(ctx, repo, "C16.dictrt")
    for cn in CLASSES:
        C = repo.cls(f"{SAMPLES_MOD}:{cn}")
        td, fd = C.resolve("to_dict"), C.resolve("from_dict")
        emitted, consumed, filters = dict_schema(C, td, fd)
        accepted = {f.name for f in C.init_fields()} | consumed
        bad = sorted(k for k in emitted if k not in accepted) if not filters else []
        ctx.decide(not bad, "C16.dict", f"{cn}.to_dict/from_dict", loc_of(fd),
                   f"every key emitted by to_dict ({len(emitted)}) is consumed or accepted by from_dict -> {cn}(...)" + (" (filtered to constructor fields)" if filters else ""),
                   f"to_dict emits {bad} which {cn}.__init__ does not accept and from_dict passes through **dictionary: {cn}.from_dict({cn}.to_dict()) raises TypeError", disc=cn)


def dict_roundtrip(ctx, repo, rule):
    """from_dict(to_dict(s)) is folded as one composition, per concrete class and per
    layout (flat / nested): the field loop of to_dict is unrolled over the class's
    dataclass fields, the resulting literal dict is fed to from_dict, and the
    constructor call must receive every constructor field with the value of the same
    field of the source, x rebuilt column by column by parameter name, in the source's
    namespace."""
    Pself, Xself = self_attr("parameters"), self_attr("x")

    def zipdict(m):
        if m[0] == "d":
            sp = [v for k, v in m[1] if k == T.K("**")]
            if len(sp) != 1:
                return False
            m = sp[0]
        if not (m[0] == "f" and m[1] == "builtins.dict" and len(m[2]) == 1):
            return False
        z = m[2][0]
        return z[0] == "f" and z[1] == "builtins.zip" and len(z[2]) == 2 and z[2][0] == Pself and z[2][1] == ("attr", Xself, "T")

    def x_ok(x):
        if not (x[0] == "f" and x[1] == "stack" and x[2] and dict(x[3]).get("axis") == T.neg(T.ONE)):
            return False
        lc = x[2][0]
        # in memory a dict keeps insertion order, so stacking the values of dict(zip(parameters, x.T)) restores x as well
        # (that form is fragile once a storage layer reorders keys: C13.dictorder)
        inner = lc[2][0] if lc[0] == "f" and lc[1] in ("builtins.list", "builtins.tuple") and lc[2] else lc
        if inner[0] == "f" and inner[1] == "method:values" and inner[2] and zipdict(inner[2][0]) and inner[2][0][0] != "d":
            return True
        if not (lc[0] == "f" and lc[1] == "listcomp" and len(lc[2]) == 2):
            return False
        body, gen = lc[2]
        if gen != ("t", (Pself, ("t", ()))) or body[0] != "s" or body[2] != ("f", "elem", (Pself,), ()):
            return False
        return zipdict(body[1])

    n = 0
    for cn in CLASSES:
        C = repo.cls(f"{SAMPLES_MOD}:{cn}")
        td, fd = C.resolve("to_dict"), C.resolve("from_dict")
        for flat in (True, False):
            tag = f"{cn}|{'flat' if flat else 'nested'}"
            construct = f"{cn}.from_dict({cn}.to_dict(flat={flat}))"
            ev = Evaluator(repo, max_depth=1, assume=lambda c, flat=flat: flat if c == T.atom("flat") else None)
            ev.transparent_extra = {"deepcopy"}  # a copy has the value of its argument
            D = T.strip_raise(ev.run(td, C))
            if not (D[0] == "d" and all(k[0] == "k" for k, _ in D[1])):
                ctx.unknown(rule, construct, loc_of(td), f"to_dict(flat={flat}) could not be folded to a literal dict: {T.show(D)[:160]}", disc=tag)
                continue

            def assume(c):
                if c[0] == "in" and c[1] == T.K("samples") and c[2][0] == "d":
                    return any(k == T.K("samples") for k, _ in c[2][1])  # parameter names do not collide with the reserved keys
                if c == ("is", Pself, T.NONE):
                    return False  # __post_init__ always sets parameter names
                return None
            ev2 = Evaluator(repo, max_depth=1, assume=assume)
            ev2.run(fd, C, args={fd.params[1]: D})
            if not flat:
                # nested layout: the per-parameter columns live under "samples", so nothing may be removed from the field
                # dictionary by a parameter *name* (a parameter called like a field -- beta, dtype, ... -- would delete that field)
                by_name = [e for e in ev2.events if e.func is fd and e.callee == "method:pop" and e.args and e.args[0][0] == "d" and len(e.args) > 1 and e.args[1][0] != "k"]
                ctx.decide(not by_name, rule, construct, loc_of(fd, by_name[0].node if by_name else None),
                           "nested layout: no entry is removed from the field dictionary by parameter name",
                           "in the nested layout from_dict removes entries of the field dictionary by parameter name: a parameter named like a constructor field "
                           "(e.g. `beta` on an SMC population) silently deletes that field, which comes back as its default", disc=f"{tag}|collide")
            news = [e for e in ev2.events if e.callee.startswith("new:") and e.depth == 0]
            if len(news) != 1 or news[0].callee != f"new:{C.ident}":
                ctx.refute(rule, construct, loc_of(fd), f"from_dict does not end in exactly one {cn}(...) construction", disc=tag)
                continue
            kw = dict(news[0].kwargs)
            if any(k in ("**",) for k in kw) or news[0].args:
                ctx.unknown(rule, construct, loc_of(fd, news[0].node), f"constructor arguments not resolved: {sorted(kw)}", disc=tag)
                continue
            n += 1
            bad = []
            for f in C.init_fields():
                v = kw.get(f.name)
                if f.name == "x":
                    if v is None or not x_ok(v):
                        bad.append(f"x is rebuilt as {T.show(v)[:120] if v else 'nothing'}, not one column per parameter name in parameter order")
                elif v is None:
                    bad.append(f"{f.name} is dropped (the rebuilt set falls back to its default)")
                elif v != self_attr(f.name):
                    bad.append(f"{f.name} = {T.show(v)[:80]} instead of the source's {f.name}")
            extra = sorted(k for k in kw if k not in {f.name for f in C.init_fields()})
            if extra:
                bad.append(f"{extra} are passed to {cn}(...) which does not accept them (TypeError)")
            ctx.decide(not bad, rule, construct, loc_of(fd, news[0].node),
                       f"every constructor field of {cn} ({len(C.init_fields())}) is rebuilt from the same field of the source; x by parameter name; same xp",
                       "; ".join(bad[:3]), disc=tag)
    ctx.floor("dict round trips folded", n, 6)


def dict_order(ctx, repo, rule):
    """Columns are paired with parameter names by *name*: to_dict zips parameters
    with the columns of x, from_dict stacks the stored columns in the order of the
    parameter list it hands to the constructor (never in the mapping's own order)."""
    from ..evalr import Evaluator

    C = repo.cls(f"{SAMPLES_MOD}:BaseSamples")
    fd = C.resolve("from_dict")
    ev = Evaluator(repo, max_depth=1)
    ev.run(fd, C)
    news = [e for e in ev.events if e.callee.startswith("new:") and e.depth == 0]
    if len(news) != 1:
        ctx.unknown(rule, fd.ident, loc_of(fd), "from_dict does not construct exactly one sample set")
        return
    kw = dict(news[0].kwargs)
    xs, ps = kw.get("x"), kw.get("parameters")
    ok = xs is not None and ps is not None
    why = ""
    if ok:
        for cond_leaf_x, cond_leaf_p in _paired_leaves(xs, ps):
            lx, lp = cond_leaf_x, cond_leaf_p
            good = lx[0] == "f" and lx[1] == "stack" and lx[2] and lx[2][0][0] == "f" and lx[2][0][1] == "listcomp"
            if good:
                body, gen = lx[2][0][2][0], lx[2][0][2][1]
                el = ("f", "elem", (lp,), ())
                good = gen[0] == "t" and gen[1][0] == lp and body[0] == "s" and body[2] == el and dict(lx[3]).get("axis") == T.neg(T.ONE)
            if not good:
                ok = False
                why = f"coordinates are built as {T.show(lx)[:160]} while the parameter list is {T.show(lp)[:100]}"
    ctx.decide(ok, rule, fd.ident, loc_of(fd, news[0].node), "from_dict stacks one column per parameter, looked up by name in the order of the parameter list it passes on",
               f"from_dict does not stack the columns by parameter name in parameter order: {why} (columns are permuted when the mapping's order differs, e.g. after an HDF5 round trip, which sorts keys)", disc="from_dict")
    td = C.resolve("to_dict")
    ev2 = Evaluator(repo, max_depth=1)
    ev2.run(td, C)
    zips = [e for e in ev2.events if e.callee == "builtins.zip" and e.depth == 0]
    okz = bool(zips) and all(e.args[0] == self_attr("parameters") and e.args[1] == ("attr", self_attr("x"), "T") for e in zips)
    ctx.decide(okz, rule, td.ident, loc_of(td), "to_dict pairs each parameter name with its column of x",
               "to_dict does not pair parameter names with the columns of x (zip(self.parameters, self.x.T))", disc="to_dict")


def _paired_leaves(xs, ps):
    """Leaves of the x term paired with the parameter-list value on the same path."""
    if xs[0] == "phi":
        c = xs[1]
        yield from _paired_leaves(T.select(xs, c, True), T.select(ps, c, True))
        yield from _paired_leaves(T.select(xs, c, False), T.select(ps, c, False))
    else:
        yield xs, ps


def dict_schema(C, td, fd):
    """(keys emitted by to_dict, keys consumed by from_dict, filters to init fields?)"""
    skip = set()
    for n in walk_no_nested(td.node):
        if isinstance(n, ast.Compare) and isinstance(n.ops[0], ast.In) and isinstance(n.comparators[0], (ast.List, ast.Tuple, ast.Set)):
            skip |= {e.value for e in n.comparators[0].elts if isinstance(e, ast.Constant)}
    loops_fields = any(isinstance(n, ast.For) and isinstance(n.iter, ast.Call) and isinstance(n.iter.func, ast.Name) and n.iter.func.id == "fields" for n in walk_no_nested(td.node))
    emitted = set()
    if loops_fields:
        emitted |= {f.name for f in C.fields()} - skip
    for n in walk_no_nested(td.node):
        if isinstance(n, ast.Subscript) and isinstance(n.ctx, ast.Store) and isinstance(n.slice, ast.Constant) and isinstance(n.slice.value, str):
            emitted.add(n.slice.value)
    consumed = set()
    for n in walk_no_nested(fd.node):
        if isinstance(n, ast.Call) and isinstance(n.func, ast.Attribute) and n.func.attr == "pop" and n.args and isinstance(n.args[0], ast.Constant):
            consumed.add(n.args[0].value)
    consumed.add("samples")
    # accepted idiom: the remaining keys are filtered to the constructor's init fields
    filters = False
    init_sets = set()
    for n in walk_no_nested(fd.node):
        if isinstance(n, ast.Assign) and isinstance(n.targets[0], ast.Name) and isinstance(n.value, (ast.SetComp, ast.ListComp, ast.GeneratorExp, ast.Call)):
            src = ast.unparse(n.value)
            if "fields(" in src and ".init" in src:
                init_sets.add(n.targets[0].id)
    splat = None
    for n in walk_no_nested(fd.node):
        if isinstance(n, ast.Call) and isinstance(n.func, ast.Name) and n.func.id == "cls":
            for kw in n.keywords:
                if kw.arg is None and isinstance(kw.value, ast.Name):
                    splat = kw.value.id
    for n in walk_no_nested(fd.node):
        if isinstance(n, ast.Assign) and isinstance(n.targets[0], ast.Name) and n.targets[0].id == splat and isinstance(n.value, ast.DictComp):
            for g in n.value.generators:
                for cond in g.ifs:
                    if isinstance(cond, ast.Compare) and isinstance(cond.ops[0], ast.In) and isinstance(cond.comparators[0], ast.Name) \
                            and cond.comparators[0].id in init_sets:
                        filters = True
    return emitted, consumed, filters


_S = "src/aspire/samples.py"
MUTANTS = [
    M("selection misaligns log_prior", _S, "log_prior=self.log_prior[idx]\n            if self.log_prior is not None", "log_prior=self.log_prior[::-1][idx]\n            if self.log_prior is not None", "C16.idx"),
    M("selection keeps all of log_q", _S, "log_q=self.log_q[idx] if self.log_q is not None else None,\n            parameters=self.parameters,\n            dtype=self.dtype,", "log_q=self.log_q if self.log_q is not None else None,\n            parameters=self.parameters,\n            dtype=self.dtype,", "C16.idx"),
    M("selection drops parameters", _S, "log_q=self.log_q[idx] if self.log_q is not None else None,\n            parameters=self.parameters,", "log_q=self.log_q[idx] if self.log_q is not None else None,", "C16.meta"),
    M("weights not selected", _S, "sliced.log_w = self.array_to_namespace(self.log_w[idx])", "sliced.log_w = self.array_to_namespace(self.log_w)", "C16.idx"),
    M("selection forgets evidence", _S, "sliced.log_evidence = self.log_evidence\n        sliced.log_evidence_error = self.log_evidence_error\n\n        if self.log_w is not None:", "sliced.log_evidence_error = self.log_evidence_error\n\n        if self.log_w is not None:", "C16.ev"),
    M("selection of an unweighted set returns before the evidence is carried over", _S, "sliced = super().__getitem__(idx)\n        sliced.log_evidence = self.log_evidence", "sliced = super().__getitem__(idx)\n        if self.log_w is None:\n            return sliced\n        sliced.log_evidence = self.log_evidence", "C16.ev"),
    M("nested dictionary without the parameter list (reader falls back to sorted names)", _S, "else:\n            out[\"samples\"] = samples", "else:\n            del out[\"parameters\"]\n            out[\"samples\"] = samples", "C16.dictrt",
      more=[("parameters = dictionary.pop(\"parameters\")\n            if parameters is None:\n                parameters = sorted", "parameters = dictionary.pop(\"parameters\", None)\n            if parameters is None:\n                parameters = sorted")]),
    M("SMC selection forgets beta", _S, "sliced.beta = self.beta\n", "", "C16.ev"),
    M("concatenate guard on another field", _S, "if all(s.log_prior is not None for s in samples)", "if all(s.log_q is not None for s in samples)", "C16.cat"),
    M("concatenate wrong axis", _S, "log_q=xp.concatenate([s.log_q for s in samples], axis=0)", "log_q=xp.concatenate([s.log_q for s in samples][::-1], axis=0)", "C16.cat"),
    M("concatenate drops dtype", _S, "parameters=samples[0].parameters,\n            dtype=samples[0].dtype,", "parameters=samples[0].parameters,", "C16.cat"),
    M("setstate does not restore xp", _S, "state[\"xp\"] = array_namespace(state[\"x\"])", "pass", "C16.pkl"),
]
MUTANTS += [
    M("to_dict zips sorted names", _S, "samples = dict(zip(self.parameters, self.x.T, strict=True))\n        if flat:", "samples = dict(zip(sorted(self.parameters), self.x.T, strict=True))\n        if flat:", "C16.dictrt"),
    M("from_dict passes derived fields on", _S, "dictionary = {k: v for k, v in dictionary.items() if k in init_names}\n", "", "C16.dict"),
    M("SMC concatenate loses beta", _S, "if all(s.beta == first.beta for s in samples):\n            out.beta = first.beta\n", "", "C16.cat"),
    M("SMC concatenate takes evidence of the last piece only", _S, "out.log_evidence = first.log_evidence", "out.log_evidence = None", "C16.cat"),
]
MUTANTS += [
    M("from_dict pops parameter names in the nested layout too", _S, "x = np.stack([samples[p] for p in parameters], axis=-1)\n        else:", "x = np.stack([samples[p] for p in parameters], axis=-1)\n            for p in parameters:\n                dictionary.pop(p, None)\n        else:", "C16.dictrt"),
    M("to_dict keeps only the skipped fields", _S, 'if name in ["x", "xp"]:\n                continue', 'if name not in ["x", "xp"]:\n                continue', "C16.dictrt"),
    M("to_dict stores None for every set field", _S, "if value is None:\n                out[name] = None", "if value is not None:\n                out[name] = None", "C16.dictrt"),
    M("to_dict forgets the namespace", _S, 'out["xp"] = self.xp\n', "", "C16.dictrt"),
    M("to_dict skips the proposal density", _S, 'if name in ["x", "xp"]:', 'if name in ["x", "xp", "log_q"]:', "C16.dictrt"),
    M("from_dict drops everything but the coordinates", _S, "return cls(x=x, parameters=parameters, **dictionary)", "return cls(x=x, parameters=parameters)", "C16.dictrt"),
    M("from_dict filters on non-constructor fields", _S, "init_names = {f.name for f in fields(cls) if f.init}", "init_names = {f.name for f in fields(cls) if not f.init}", "C16.dictrt"),
    M("from_dict swaps prior and likelihood", _S, "return cls(x=x, parameters=parameters, **dictionary)", 'dictionary["log_prior"], dictionary["log_likelihood"] = dictionary.get("log_likelihood"), dictionary.get("log_prior")\n        return cls(x=x, parameters=parameters, **dictionary)', "C16.dictrt"),
]
MUTANTS += [
    M("constructor squeezes the proposal log-density", _S, "self.log_q = self.array_to_namespace(self.log_q, dtype=self.dtype)", "self.log_q = self.array_to_namespace(self.log_q, dtype=self.dtype).squeeze()", "C16.shape"),
]
MUTANTS += [
    M("constructor skips the weights for fewer than two samples", _S, "for x in [self.log_likelihood, self.log_prior, self.log_q]\n        ):\n            self.compute_weights()", "for x in [self.log_likelihood, self.log_prior, self.log_q]\n        ) and len(self.x) > 1:\n            self.compute_weights()", "C16.shape"),
]
NEUTRALS = [
    M("flat layout refuses parameter names that clash with field names (repairs the flat-keys finding)", "src/aspire/samples.py", "samples = dict(zip(self.parameters, self.x.T, strict=True))\n        if flat:", "samples = dict(zip(self.parameters, self.x.T, strict=True))\n        if flat and set(self.parameters) & set(out):\n            raise ValueError(\"parameter names clash with field names\")\n        if flat:"),
    M("from_dict stacks columns in mapping order (insertion order is kept in memory)", _S, "x = np.stack([samples[p] for p in parameters], axis=-1)", "x = np.stack(list(samples.values()), axis=-1)"),
    M("concatenate through an all-or-none helper", _S, "log_q=xp.concatenate([s.log_q for s in samples], axis=0)\n            if all(s.log_q is not None for s in samples)\n            else None,",
      "log_q=_stack(\"log_q\"),", more=[("xp = samples[0].xp\n        return cls(", "xp = samples[0].xp\n\n        def _stack(name):\n            values = [getattr(s, name) for s in samples]\n            if any(v is None for v in values):\n                return None\n            return xp.concatenate(values, axis=0)\n\n        return cls(")]),
    M("to_dict without the defensive try", _S, "try:\n                    out[name] = deepcopy(value) if copy else value\n                except Exception:\n                    out[name] = value", "out[name] = deepcopy(value) if copy else value"),
    M("to_dict skip test as a tuple", _S, 'if name in ["x", "xp"]:', 'if name in ("x", "xp"):'),
    M("selection via temporaries", _S, "return self.__class__(\n            x=self.x[idx],", "xs = self.x[idx]\n        return self.__class__(\n            x=xs,", within="BaseSamples.__getitem__"),
    M("concatenate keyword order", _S, "parameters=samples[0].parameters,\n            dtype=samples[0].dtype,", "dtype=samples[0].dtype,\n            parameters=samples[0].parameters,"),
]

# functions the property is anchored in (auto-mutant sweep of the thorough tier)
ANCHORS = [
    'aspire.samples:BaseSamples.__getitem__',
    'aspire.samples:BaseSamples.concatenate',
    'aspire.samples:Samples.__getitem__',
    'aspire.samples:SMCSamples.__getitem__',
    'aspire.samples:SMCSamples.concatenate',
    'aspire.samples:BaseSamples.__getstate__',
    'aspire.samples:BaseSamples.__setstate__',
    'aspire.samples:BaseSamples.to_dict',
    'aspire.samples:BaseSamples.from_dict',
]

MUTANTS += [
    M("array_to_namespace skips the conversion when the dtype already matches", "src/aspire/samples.py", "x = asarray(x, self.xp, **kwargs)\n        x = safe_to_device(x, self.device, self.xp)\n        return x",
      "if self.device is None and hasattr(x, \"dtype\") and x.dtype == kwargs[\"dtype\"]:\n            return x\n        x = asarray(x, self.xp, **kwargs)\n        x = safe_to_device(x, self.device, self.xp)\n        return x", "C16a2n.a2n"),
]
