"""C08 -- SMC evidence is the accumulated product of incremental ratios."""

from __future__ import annotations

import ast

from .. import AnalysisError
from .. import terms as T
from ..cfg import CFG, calls_in
from ..model import walk_no_nested
from ..mutants import M
from ..spec import spec
from .common import SELF, fold, loc_of, self_attr
from .schedule import population_weights
from .smcloop import SMC, find_smc_loop, fold_sample, history_appends, roles

META = {
    "explanation": (
        "log_evidence_ratio(b) == LSE((b-beta)(L+P-Q)) - log N and its variance == var(u)/(N mean(u)^2) with u = exp(w - max w) "
        "by value numbering; in the SMC loop (folded on the fresh and the resumed entry path) the ratio and its variance are "
        "evaluated on the population at the loop head (initial/restored or the previous iteration's mutate result, never this "
        "iteration's resample) with this iteration's determine_beta result; on the CFG exactly one append to log_norm_ratio "
        "and one to log_norm_ratio_var per iteration, of the values just computed, none outside the loop and no other writer "
        "in the package; after the enlargement block log_evidence == sum(history.log_norm_ratio) and log_evidence_error == "
        "sqrt(sum(history.log_norm_ratio_var)) are stored on the population that is converted and returned."
    ),
    "not_decided": "numerical equality of the recomputation; third-party kernel behaviour",
    "assumptions": ["History lists are only mutated through the attribute names visible in the source (setattr in History.load is the only dynamic store)"],
}

SERIES = ("log_norm_ratio", "log_norm_ratio_var")


def inf_rule(ctx, rule="C08.inf"):
    """A particle with log-likelihood -inf (a hard cut) has incremental weight 0: the
    log-likelihood (and log-prior) may enter the incremental log-weight only through
    products whose coefficient is the temperature *difference* -- never through a
    product with a single temperature, which is 0 for the initial population
    (0 * -inf = NaN) and makes the difference of two tempered densities inf - inf."""
    from ..evalr import Evaluator, is_scalar
    repo = ctx.repo
    S = repo.cls("aspire.samples:SMCSamples")
    m = S.resolve("unnormalized_log_weights")
    ev = Evaluator(repo, max_depth=2)
    ev.run(m, S)
    b = T.atom(m.params[1])
    diff = T.sub(b, self_attr("beta"))
    hot = {self_attr("log_likelihood"), self_attr("log_prior")}
    bad, n = [], 0
    for a_, b_, node, f in ev.products:
        for coef, val in ((a_, b_), (b_, a_)):
            if any(x in hot for x in T.subterms(val)) and not any(x in hot for x in T.subterms(coef)):
                n += 1
                if coef not in (diff, T.neg(diff)) and T.const_value(coef) in (None, 0):
                    bad.append((coef, val, node, f))
    ctx.floor("products with the log-likelihood in the incremental weight", n, 1)
    ctx.decide(not bad, rule, m.ident, loc_of(bad[0][3] if bad else m, bad[0][2] if bad else None),
               "log-likelihood and log-prior enter the incremental log-weight only multiplied by the temperature difference (beta - self.beta), which is never 0 along the schedule",
               (f"the incremental log-weight multiplies {T.show(bad[0][1])[:60]} by {T.show(bad[0][0])[:40]}, which is 0 for a population at that temperature (the initial one has beta = 0): "
                "a particle with log-likelihood -inf gets 0 * -inf = NaN instead of weight 0, so log_weights raises / the evidence ratio is NaN") if bad else "")


def inline_ratio_rule(ctx, repo, sample, loop_node, resumed, tag, R) -> bool:
    """The loop computes the increment itself instead of calling log_evidence_ratio(): the recorded value must still be
    LSE(W) - log N with W the incremental log-weights of the population at the loop head *for the temperature this iteration
    moves to* -- decided on values, with determine_beta inlined, separately on each branch of the schedule options.
    Returns False when the appended value has no such shape (the caller then reports the shape as undecided)."""
    import itertools

    from ..evalr import is_scalar, lse
    sf = fold_sample(repo, resumed=resumed, final=False, inline_db=True)
    lp = sf.loop
    if lp is None:
        return False
    head_s, head_b, body_b = lp["head"].get(R.samples), lp["head"].get(R.beta), lp["body"].get(R.beta)
    aps = [a for a in sf.events("method:append", in_loop=True) if a.args and a.args[0][0] == "attr" and a.args[0][2] == "log_norm_ratio"]
    if len(aps) != 1 or head_s is None or body_b is None:
        return False
    val = T.strip_raise(aps[0].args[1])
    W = None
    for x in T.subterms(val):
        if x and x[0] == "f" and x[1] == "max" and len(x[2]) == 1:
            for n_ in (T.app("len", head_s), T.app("len", ("attr", head_s, "x"))):
                if val == T.sub(lse(x[2][0]), T.app("log", n_)):
                    W = x[2][0]
    if W is None:
        return False
    conds = []

    def top_conds(t):
        if isinstance(t, tuple) and t and t[0] == "phi":
            if t[1] not in conds:
                conds.append(t[1])
            top_conds(t[2])
            top_conds(t[3])
    top_conds(W)
    a = lambda n: ("attr", head_s, n)
    ratio = spec("L + P - Q", L=a("log_likelihood"), P=a("log_prior"), Q=a("log_q"))
    n_br = 0
    for bits in itertools.product((True, False), repeat=len(conds[:4])):
        asg = dict(zip(conds, bits))
        orc = lambda c: asg.get(c)
        Wk, bk = T.resolve(W, orc), T.resolve(body_b, orc)
        if Wk[0] == "phi" or bk is None:
            continue
        n_br += 1
        where = ", ".join(f"{T.show(c)[:30]}={v}" for c, v in asg.items()) or "all options"
        ok, why = False, ""
        if Wk[0] == "f" and Wk[1] in ("method:unnormalized_log_weights", "method:log_weights") and len(Wk[2]) == 2:
            ok = Wk[2][0] == head_s and Wk[2][1] == bk
            why = f"the weights are {T.show(Wk)[:120]}, not those of the loop-head population at this iteration's temperature"
        else:
            for bs in (a("beta"), head_b):
                d = T.sub(Wk, T.mul(T.sub(bk, bs), ratio))
                if d == T.ZERO or is_scalar(d):
                    ok = True
            why = (f"the increment is computed from W = {T.show(Wk)[:160]}, which is not (beta' - beta)(L + P - Q) for the temperature beta' = {T.show(bk)[:120]} the iteration "
                   "moves to: when the step taken differs from the one the weights were evaluated for (a step forced by the minimum step, a clamp), the recorded ratio is that of another "
                   "temperature move and the increments no longer telescope to the evidence")
        ctx.decide(ok, "C08.pre", sample.ident, loc_of(sample, aps[0].node), f"[{tag}; {where}] the recorded increment is LSE(W) - log N with W the incremental weights for this iteration's temperature",
                   f"[{tag}; {where}] " + why, disc=f"{tag}|inline|{n_br}")
    return n_br > 0


def run(ctx):
    repo = ctx.repo
    inf_rule(ctx)
    from ..report import reuse as _reuse
    from . import c11 as _c11
    from . import c15 as _c15
    _reuse(ctx, _c15.evidence_dtype_rule, ("C15.evid",), "C08evid", "precision rule shared with C15: the total is rebuilt from the recorded series; increments narrowed to Python floats come back in the "
           "namespace's default width (float32 under torch), so the reported log-evidence is not the sum of the recorded increments to the run's precision")
    from . import c10 as _c10
    _reuse(ctx, lambda c: _c10.own_rule(c, fields=SERIES, strict=True), ("C10.own",), "C08own", "ownership rule shared with C10: the recorded increments are summed again by every later reader (a resumed run, "
           "a second look at the history); an accumulation that happens inside the first recorded item changes the series it is the sum of")
    _reuse(ctx, _c11.run, ("C11.restore",), "C08res", "restore rule shared with C11: every recorded increment belongs to the recorded population before it; a restore that trims or rewrites the "
           "restored history shifts that pairing for every later step", only=lambda f: f.key.endswith("history|mutated"))
    _reuse(ctx, _c11.run, ("C11.keys",), "C08res", "payload rule shared with C11: an extra that replaces the payload's 'meta' entry loses the checkpointed temperature, so the first increment after "
           "a resume is computed for a move from beta = 0", only=lambda f: "collision|" in f.key)
    # ---- the evidence the sampler stored on the returned set is what the caller gets: the front end does not attach a density field to that set afterwards.
    #      A weighted set (likelihood, prior and log_q all present) *recomputes* its evidence with the importance-sampling estimator whenever it is rebuilt
    #      (to_namespace / to_numpy / save), which would replace the SMC estimate
    A_ = repo.cls("aspire.aspire:Aspire")
    spf = A_.methods["sample_posterior"]
    call_ln = [n_.lineno for n_ in walk_no_nested(spf.node) if isinstance(n_, ast.Call) and isinstance(n_.func, ast.Attribute) and n_.func.attr == "sample"
               and isinstance(n_.func.value, ast.Attribute) and n_.func.value.attr == "_sampler"]
    attach = [n_ for n_ in walk_no_nested(spf.node) if isinstance(n_, ast.Attribute) and isinstance(n_.ctx, ast.Store) and n_.attr in ("log_q", "log_likelihood", "log_prior")
              and call_ln and n_.lineno > call_ln[0]]
    ctx.decide(bool(call_ln) and not attach, "C08.sum", spf.ident, loc_of(spf, attach[0] if attach else None),
               "sample_posterior hands back the sampler's set without attaching density fields to it",
               (f"after the sampler returned, sample_posterior stores `{ast.unparse(attach[0])}`: with all three densities present the set is a *weighted* set, and every rebuild of it "
                "(sample_posterior(xp=...), to_numpy(), save()) recomputes log_evidence from importance weights -- the SMC estimate, the sum of the per-step ratios, is silently replaced") if attach else "",
               disc="front-end")
    from . import c09 as _c09
    _reuse(ctx, _c09.run, ("C09.label",), "C08pop", "population rule shared with C09: each increment is computed on the population the previous iteration (or the restored history) recorded; a "
           "resumed run that redraws or resizes the restored population before its first step books that step on a set that is in no record and that depends on resampling noise")
    _reuse(ctx, _c11.run, ("C11.cut",), "C08cut", "cut-point rule shared with C11: a checkpoint taken before the iteration's ratio is recorded makes a resumed run drop that step from the evidence")
    S = repo.cls("aspire.samples:SMCSamples")
    N = T.app("len", self_attr("x"))
    # ---- identities
    m = S.resolve("log_evidence_ratio")
    ev, ret = fold(repo, m, S)
    b = T.atom(m.params[1])
    w = population_weights(SELF, b)
    want = spec("LSE(w) - log(N)", w=w, N=N)
    ctx.decide(T.strip_raise(ret) == want, "C08.ratio", m.ident, loc_of(m), "log_evidence_ratio(b) == LSE((b-beta)(L+P-Q)) - log N",
               f"log_evidence_ratio returns {T.show(ret)[:300]}")
    m = S.resolve("log_evidence_ratio_variance")
    ev, ret = fold(repo, m, S)
    b = T.atom(m.params[1])
    w = population_weights(SELF, b)
    u = spec("exp(w - max(w))", w=w)
    wantv = spec("var(u) / (N * mean(u)**2)", u=u, N=N)
    got = T.strip_raise(ret)
    # the value on the non-degenerate path (mean(u) > 0; u contains exp(0) = 1 so this is every finite population)
    import ast as _ast
    from ..evalr import compare as _cmp
    mu, zero = spec("mean(u)", u=u), T.const(0)
    nd = got
    for op, pol in ((_ast.NotEq(), True), (_ast.Eq(), False), (_ast.Gt(), True), (_ast.LtE(), False)):
        nd = T.select(nd, _cmp(op, mu, zero), pol)
    ctx.decide(nd == wantv, "C08.var", m.ident, loc_of(m), "variance == var(u)/(N mean(u)^2), u = exp(w - max w), whenever mean(u) > 0",
               f"on a non-degenerate population (mean(u) > 0) variance returns {T.show(nd)[:300]}")
    ctx.count("functions_folded", 2)

    smc = repo.cls(SMC)
    sample = smc.methods["sample"]
    loop_node = find_smc_loop(sample)
    if loop_node is None:
        ctx.unknown("C08.pre", sample.ident, loc_of(sample), "SMC loop not found")
        return
    g = CFG(sample.node)
    lp_cfg = g.loop_of(loop_node)

    # ---- once per iteration / nowhere else
    apps = history_appends(sample, repo, smc)
    for series in SERIES:
        nodes = [n for s, n in apps if s == series]
        def weight(node, nodes=nodes):
            return sum(1 for c in calls_in(node.ast) if c in nodes)
        cnt = g.count_range(lp_cfg, weight)
        ctx.decide(cnt == (1, 1), "C08.once", sample.ident, loc_of(sample, loop_node),
                   f"exactly one append to history.{series} on every path through an iteration",
                   f"history.{series} is appended between {cnt[0]} and {cnt[1]} times per iteration", disc=series)
        outside = [n for n in nodes if not (loop_node.lineno <= n.lineno <= loop_node.end_lineno)]
        ctx.decide(not outside, "C08.once", sample.ident, loc_of(sample, outside[0] if outside else loop_node),
                   f"no append to history.{series} outside the loop",
                   f"history.{series} is also appended outside the SMC loop (line {outside[0].lineno if outside else ''}): the evidence sum counts an extra step", disc=f"{series}|outside")
    # who may write
    writers = []
    for f in repo.all_functions():
        if f is sample:
            continue
        for n in ast.walk(f.node):
            if isinstance(n, ast.Attribute) and n.attr in SERIES:
                par_store = isinstance(n.ctx, ast.Store)
                if par_store:
                    writers.append((f, n))
            if isinstance(n, ast.Call) and isinstance(n.func, ast.Attribute) and n.func.attr in ("append", "extend", "insert", "pop", "clear") \
                    and isinstance(n.func.value, ast.Attribute) and n.func.value.attr in SERIES:
                writers.append((f, n))
    ctx.decide(not writers, "C08.writers", "package", loc_of(sample),
               "no function other than SMCSampler.sample writes history.log_norm_ratio / log_norm_ratio_var",
               "other writer(s): " + ", ".join(f"{f.ident}:{n.lineno}" for f, n in writers[:4]))
    ctx.count("functions_scanned", sum(1 for _ in repo.all_functions()))

    # ---- the estimate does not depend on checkpointing: a checkpoint holds a snapshot of the series
    from .c11 import _extra_keys
    hv = _extra_keys(repo, smc).get("history")
    ces0 = smc.resolve("_checkpoint_extra_state")
    oks = hv is not None and hv[0] == "f" and hv[1].endswith("deepcopy") and hv[2] and hv[2][0] == self_attr("history")
    ctx.decide(bool(oks), "C08.ckpt", ces0.ident, loc_of(ces0), "a checkpoint stores a deep copy of the ratio series: later iterations cannot leak into it",
               f"a checkpoint stores {T.show(hv)[:80] if hv else 'no history'}: its log_norm_ratio list is shared with the running sampler, so a run resumed from that "
               "checkpoint (as a dictionary) sums ratios of iterations it then repeats")

    # ---- population and temperatures used by the ratio, per entry path
    for resumed in (False, True):
        sf = fold_sample(repo, resumed=resumed, final=False)
        ctx.count("functions_folded")
        tag = "resumed" if resumed else "fresh"
        lp = sf.loop
        if lp is None:
            ctx.unknown("C08.pre", sample.ident, loc_of(sample, loop_node), f"[{tag}] loop not recorded")
            continue
        R = roles(repo)
        head_s, head_b = lp["head"].get(R.samples), lp["head"].get(R.beta)
        body_b = lp["body"].get(R.beta)
        ok_beta = body_b is not None and body_b[0] == "s" and body_b[1][0] == "f" and body_b[1][1].endswith("determine_beta") \
            and head_s in body_b[1][2] and head_b in body_b[1][2]
        for callee, series in (("method:log_evidence_ratio", "log_norm_ratio"), ("method:log_evidence_ratio_variance", "log_norm_ratio_var")):
            evs = sf.events(callee, in_loop=True)
            if len(evs) == 0 and series == "log_norm_ratio" and inline_ratio_rule(ctx, repo, sample, loop_node, resumed, tag, R):
                continue
            if len(evs) != 1:
                ctx.unknown("C08.pre", sample.ident, loc_of(sample, loop_node), f"[{tag}] expected one {callee} call in the loop, found {len(evs)}", disc=f"{tag}|{series}")
                continue
            e = evs[0]
            recv, arg = e.args[0], (e.args[1] if len(e.args) > 1 else dict(e.kwargs).get("beta"))
            bad = []
            if recv != head_s:
                if recv[0] == "f" and "resample" in recv[1]:
                    bad.append("the ratio is evaluated on this iteration's *resampled* population (all incremental weights are equal there)")
                else:
                    bad.append(f"the ratio is evaluated on {T.show(recv)[:100]}, not on the population at the loop head")
            # what C08 needs is that the increment is taken at the temperature the iteration *moves to* (the one resample / mutate use and the loop carries on);
            # how that temperature was chosen is C06's / C07's business (C06.once, C07once)
            if arg != body_b:
                bad.append(f"the ratio uses temperature {T.show(arg)[:100]}, not the temperature this iteration moves to ({T.show(body_b)[:80] if body_b else None})")
            ctx.decide(not bad, "C08.pre", sample.ident, loc_of(sample, e.node),
                       f"[{tag}] {callee[7:]} evaluated on the pre-resampling population with this iteration's temperature",
                       f"[{tag}] " + "; ".join(bad), disc=f"{tag}|{series}")
            # the appended value is the value just computed
            aps = [a for a in sf.events("method:append", in_loop=True) if a.args and a.args[0][0] == "attr" and a.args[0][2] == series]
            ok = len(aps) == 1 and aps[0].args[1] == e.result
            ctx.decide(ok, "C08.val", sample.ident, loc_of(sample, aps[0].node if aps else e.node),
                       f"[{tag}] history.{series} receives the value just computed",
                       f"[{tag}] history.{series} is appended with {T.show(aps[0].args[1])[:120] if aps else 'nothing'}, not the value computed in this iteration", disc=f"{tag}|{series}")
        # population flow: resample(head, beta') then mutate(., beta')
        mu = sf.events(".mutate", in_loop=True)
        rs = sf.events("method:resample", in_loop=True)
        ok = len(mu) == 1 and len(rs) == 1 and rs[0].args[0] == head_s and rs[0].args[1] == body_b and mu[0].args[0] == rs[0].result \
            and mu[0].args[1] == body_b and lp["body"].get(R.samples) == mu[0].result
        ctx.decide(ok, "C08.flow", sample.ident, loc_of(sample, loop_node),
                   f"[{tag}] next population == mutate(resample(population, beta'), beta')",
                   f"[{tag}] the loop does not carry mutate(resample(population, beta'), beta') to the next iteration", disc=tag)

    # ---- final sum, on both enlargement paths
    for final in (False, True):
        sf = fold_sample(repo, resumed=False, final=final)
        ctx.count("functions_folded")
        tag = "enlarged" if final else "same size"
        ts = sf.events("method:to_standard_samples", in_loop=False)
        if len(ts) != 1:
            ctx.unknown("C08.sum", sample.ident, loc_of(sample), f"[{tag}] expected one to_standard_samples call, found {len(ts)}", disc=tag)
            continue
        obj = ts[0].args[0]
        H = sf.ev.heap.get((SELF, "history"))
        le = sf.ev.heap.get((obj, "log_evidence"))
        lee = sf.ev.heap.get((obj, "log_evidence_error"))
        want_le = spec("sum(h)", h=("attr", H, "log_norm_ratio")) if H is not None else None
        want_lee = spec("sqrt(sum(h))", h=("attr", H, "log_norm_ratio_var")) if H is not None else None
        ctx.decide(le is not None and le == want_le, "C08.sum", sample.ident, loc_of(sample, ts[0].node),
                   f"[{tag}] returned log_evidence == sum(history.log_norm_ratio)",
                   f"[{tag}] log_evidence stored on the returned population is {T.show(le)[:200] if le else 'not set'}", disc=f"{tag}|Z")
        ctx.decide(lee is not None and lee == want_lee, "C08.sum", sample.ident, loc_of(sample, ts[0].node),
                   f"[{tag}] returned log_evidence_error == sqrt(sum(history.log_norm_ratio_var))",
                   f"[{tag}] log_evidence_error stored on the returned population is {T.show(lee)[:200] if lee else 'not set'}", disc=f"{tag}|err")
        snap = (ts[0].snap or {}).get(obj, {})
        in_time = snap.get("log_evidence") == want_le and snap.get("log_evidence_error") == want_lee
        ctx.decide(in_time, "C08.sum", sample.ident, loc_of(sample, ts[0].node),
                   f"[{tag}] the sums are stored before the population is converted for return",
                   f"[{tag}] when the population is converted for return it carries log_evidence = {T.show(snap.get('log_evidence'))[:80] if snap.get('log_evidence') else 'unset'}", disc=f"{tag}|order")
        ok = sf.ret == ts[0].result
        ctx.decide(ok, "C08.sum", sample.ident, loc_of(sample, ts[0].node), f"[{tag}] the population carrying the sum is the one converted and returned",
                   f"[{tag}] sample() returns {T.show(sf.ret)[:120]}", disc=f"{tag}|ret")


_B = "src/aspire/samplers/smc/base.py"
_S = "src/aspire/samples.py"
MUTANTS = [
    M("incremental weight as a difference of tempered densities", _S, "return (self.beta - beta) * self.log_q + (beta - self.beta) * (\n            self.log_likelihood + self.log_prior\n        )", "return self.log_p_t(beta) - self.log_p_t(self.beta)", "C08.inf"),
    M("ratio drops -log N", _S, "log_w = self.unnormalized_log_weights(beta)\n        return logsumexp(log_w) - math.log(len(self.x))", "log_w = self.unnormalized_log_weights(beta)\n        return logsumexp(log_w)", "C08.ratio"),
    M("variance reported as nan unless degenerate", _S, "if mean_w != 0 else self.xp.nan", "if mean_w == 0 else self.xp.nan", "C08.var"),
    M("variance not divided by N", _S, "var_w / (len(self) * (mean_w**2))", "var_w / (mean_w**2)", "C08.var"),
    M("variance of unshifted weights", _S, "u = self.xp.exp(log_w - m)", "u = self.xp.exp(log_w)", "C08.var"),
    M("ratio after resampling", _B, "log_evidence_ratio = samples.log_evidence_ratio(beta)\n                log_evidence_ratio_var = samples.log_evidence_ratio_variance(\n                    beta\n                )",
      "samples = samples.resample(beta, rng=self.rng)\n                log_evidence_ratio = samples.log_evidence_ratio(beta)\n                log_evidence_ratio_var = samples.log_evidence_ratio_variance(\n                    beta\n                )", ("C08.pre", "C08.flow")),
    M("ratio at the final temperature", _B, "log_evidence_ratio = samples.log_evidence_ratio(beta)", "log_evidence_ratio = samples.log_evidence_ratio(1.0)", "C08.pre"),
    M("ratio appended twice", _B, "self.history.log_norm_ratio.append(log_evidence_ratio)", "self.history.log_norm_ratio.append(log_evidence_ratio)\n                self.history.log_norm_ratio.append(log_evidence_ratio)", "C08.once"),
    M("ratio appended only when finite", _B, "self.history.log_norm_ratio.append(log_evidence_ratio)", "if eff > 0.1:\n                    self.history.log_norm_ratio.append(log_evidence_ratio)", "C08.once"),
    M("enlargement adds a ratio", _B, "samples = self.mutate(final_samples, 1.0, n_steps=n_final_steps)", "self.history.log_norm_ratio.append(samples.log_evidence_ratio(1.0))\n            samples = self.mutate(final_samples, 1.0, n_steps=n_final_steps)", "C08.once"),
    M("variance series gets the ratio", _B, "self.history.log_norm_ratio_var.append(log_evidence_ratio_var)", "self.history.log_norm_ratio_var.append(log_evidence_ratio)", "C08.val"),
    M("evidence summed before enlargement", _B, "samples.log_evidence = samples.xp.sum(\n            asarray(self.history.log_norm_ratio, self.xp)\n        )", "samples.log_evidence = samples.xp.sum(\n            asarray(self.history.log_norm_ratio[:-1], self.xp)\n        )", "C08.sum"),
    M("error not root of summed variances", _B, "samples.log_evidence_error = samples.xp.sqrt(\n            samples.xp.sum(asarray(self.history.log_norm_ratio_var, self.xp))\n        )", "samples.log_evidence_error = samples.xp.sum(\n            samples.xp.sqrt(asarray(self.history.log_norm_ratio_var, self.xp))\n        )", "C08.sum"),
    M("evidence stored after the conversion", _B, "samples.log_evidence = samples.xp.sum(", "final_samples = samples.to_standard_samples()\n        samples.log_evidence = samples.xp.sum(", "C08.sum",
      more=[("maybe_checkpoint(force=True)\n\n        final_samples = samples.to_standard_samples()", "maybe_checkpoint(force=True)\n")]),
    M("population not carried", _B, "samples = self.mutate(samples, beta)\n", "self.mutate(samples, beta)\n", "C08.flow"),
]
MUTANTS += [
    M("checkpoint shares the ratio lists", _B, "history_copy = copy.deepcopy(self.history)", "history_copy = copy.copy(self.history)", "C08.ckpt"),
]
MUTANTS += [
    M("per-step ratio returned as a Python float", "src/aspire/samples.py", "return logsumexp(log_w) - math.log(len(self.x))", "return float(logsumexp(log_w) - math.log(len(self.x)))", "C08evid.evid"),
]
_IMP = [("from ...utils import (\n    asarray,", "from ...utils import (\n    logsumexp,\n    asarray,"), ("import copy\nimport logging", "import copy\nimport math\nimport logging")]
MUTANTS += [
    M("increment computed in the loop from the weights of the previous temperature", "src/aspire/samplers/smc/base.py", "log_evidence_ratio = samples.log_evidence_ratio(beta)",
      "log_evidence_ratio = logsumexp(samples.unnormalized_log_weights(samples.beta)) - math.log(len(samples.x))", "C08.pre", more=_IMP),
]
MUTANTS += [
    M("evidence total accumulated in place into the first recorded increment", "src/aspire/samplers/smc/base.py", "samples.log_evidence = samples.xp.sum(\n            asarray(self.history.log_norm_ratio, self.xp)\n        )",
      "samples.log_evidence = asarray(_running_total(self.history.log_norm_ratio), samples.xp)", "C08own.own",
      more=[("class SMCSampler(MCMCSampler):", "def _running_total(values):\n    total = values[0]\n    for value in values[1:]:\n        total += value\n    return total\n\n\nclass SMCSampler(MCMCSampler):")]),
]
MUTANTS += [
    M("front end fills in the proposal density on the returned set", "src/aspire/aspire.py", "if xp is not None:\n            samples = samples.to_namespace(xp)", "if samples.log_q is None and self.flow is not None:\n            samples.log_q = samples.array_to_namespace(self.flow.log_prob(samples.x))\n        if xp is not None:\n            samples = samples.to_namespace(xp)", "C08.sum"),
]
MUTANTS += [
    M("a resumed run resizes the restored population to n_samples before its first step", "src/aspire/samplers/smc/base.py", "self.fit_preconditioning_transform(samples.x)\n", "if resumed and len(samples.x) != n_samples:\n            samples = samples.resample(beta, n_samples=n_samples, rng=self.rng)\n        self.fit_preconditioning_transform(samples.x)\n", "C08pop", within="SMCSampler.sample"),
]

NEUTRALS = [
    M("loop adjusts the temperature after the search; the increment is taken at the adjusted one", "src/aspire/samplers/smc/base.py", "self.history.eff_target.append(\n                    self.current_target_efficiency(beta)\n                )",
      "if beta > 1.0 - 1e-12:\n                    beta = 1.0\n                self.history.eff_target.append(\n                    self.current_target_efficiency(beta)\n                )"),
    M("evidence total accumulated by a helper loop into a fresh local", "src/aspire/samplers/smc/base.py", "samples.log_evidence = samples.xp.sum(\n            asarray(self.history.log_norm_ratio, self.xp)\n        )",
      "samples.log_evidence = asarray(_running_total(self.history.log_norm_ratio), samples.xp)",
      more=[("class SMCSampler(MCMCSampler):", "def _running_total(values):\n    total = 0.0\n    for value in values:\n        total = total + value\n    return total\n\n\nclass SMCSampler(MCMCSampler):")]),
    M("increment computed in the loop from the incremental weights of this iteration's temperature", "src/aspire/samplers/smc/base.py", "log_evidence_ratio = samples.log_evidence_ratio(beta)",
      "log_evidence_ratio = logsumexp(samples.unnormalized_log_weights(beta)) - math.log(len(samples.x))", more=_IMP),
    __import__("aspire_sa.rules.smcloop", fromlist=["HELPER_NEUTRAL"]).HELPER_NEUTRAL,
    M("incremental weight with the difference named", _S, "return (self.beta - beta) * self.log_q + (beta - self.beta) * (\n            self.log_likelihood + self.log_prior\n        )", "db = beta - self.beta\n        return db * (self.log_likelihood + self.log_prior) - db * self.log_q"),
    M("history through a local alias", _B, "self.history.log_norm_ratio.append(log_evidence_ratio)", "hist = self.history\n                hist.log_norm_ratio.append(log_evidence_ratio)"),
    M("ratio via temporary names", _B, "log_evidence_ratio = samples.log_evidence_ratio(beta)", "lz = samples.log_evidence_ratio(beta)\n                log_evidence_ratio = lz"),
    M("variance regrouped", _S, "var_w / (len(self) * (mean_w**2))", "(var_w / mean_w**2) / len(self.x)"),
    M("appends reordered", _B, "self.history.log_norm_ratio.append(log_evidence_ratio)\n                self.history.log_norm_ratio_var.append(log_evidence_ratio_var)", "self.history.log_norm_ratio_var.append(log_evidence_ratio_var)\n                self.history.log_norm_ratio.append(log_evidence_ratio)"),
]

# functions the property is anchored in (auto-mutant sweep of the thorough tier)
ANCHORS = [
    'aspire.samples:SMCSamples.log_evidence_ratio',
    'aspire.samples:SMCSamples.log_evidence_ratio_variance',
    'aspire.samples:SMCSamples.unnormalized_log_weights',
    'aspire.samplers.smc.base:SMCSampler.sample',
]
