"""Check context: findings, verdict discipline, evidence, known findings."""

from __future__ import annotations

import json
import os
import time
from dataclasses import asdict, dataclass, field

from . import AnalysisError

VERIF = os.path.dirname(os.path.dirname(os.path.abspath(__file__)))
# ASPIRE_SA_EVIDENCE_DIR: development override (tools/run_seeded.py runs many scratch copies in parallel);
# the registered commands never set it.
EVIDENCE_DIR = os.environ.get("ASPIRE_SA_EVIDENCE_DIR") or os.path.join(VERIF, "evidence")
KNOWN_FILE = os.path.join(VERIF, "known_findings.json")

PROVED, REFUTED, UNKNOWN = "PROVED", "REFUTED", "UNKNOWN"


@dataclass
class Finding:
    rule: str
    construct: str
    loc: str
    verdict: str
    detail: str
    key: str
    trivial: bool = False


@dataclass
class Ctx:
    prop: str
    tier: str
    repo: object
    findings: list = field(default_factory=list)
    analysed: dict = field(default_factory=dict)  # free-form coverage counters
    floors: list = field(default_factory=list)  # (name, got, floor)
    quiet: bool = False
    notes: list = field(default_factory=list)

    def _add(self, verdict, rule, construct, loc, detail, disc="", trivial=False):
        key = f"{rule} | {construct}" + (f" | {disc}" if disc else "")
        f = Finding(rule, construct, loc, verdict, detail, key, trivial)
        self.findings.append(f)
        return f

    def prove(self, rule, construct, loc, detail, disc="", trivial=False):
        return self._add(PROVED, rule, construct, loc, detail, disc, trivial)

    def refute(self, rule, construct, loc, detail, disc=""):
        return self._add(REFUTED, rule, construct, loc, detail, disc)

    def unknown(self, rule, construct, loc, detail, disc=""):
        return self._add(UNKNOWN, rule, construct, loc, detail, disc)

    def decide(self, ok, rule, construct, loc, detail_ok, detail_bad, disc=""):
        if ok:
            return self.prove(rule, construct, loc, detail_ok, disc)
        return self.refute(rule, construct, loc, detail_bad, disc)

    def floor(self, name: str, got: int, floor: int):
        self.floors.append((name, got, floor))

    def count(self, name: str, n: int = 1):
        self.analysed[name] = self.analysed.get(name, 0) + n


def reuse(ctx: "Ctx", run_fn, keep, rename: str, note: str, only=None):
    """Run another property's rule function on the same repository and re-emit
    the findings whose rule name starts with one of *keep* under *rename* (the
    same structural fact is a necessary condition of both properties)."""
    sub = Ctx(ctx.prop, ctx.tier, ctx.repo)
    run_fn(sub)
    n = 0
    for f in sub.findings:
        if any(f.rule.startswith(k) for k in keep) and (only is None or only(f)):
            n += 1
            new_rule = f"{rename}.{f.rule.split('.', 1)[1]}"
            ctx._add(f.verdict, new_rule, f.construct, f.loc, f"{f.detail} [{note}]", disc=f.key.split(" | ", 2)[2] if f.key.count(" | ") >= 2 else "", trivial=f.trivial)
    ctx.count(f"reused_from_{rename}", n)
    return n


def load_known() -> list:
    if not os.path.exists(KNOWN_FILE):
        return []
    with open(KNOWN_FILE) as f:
        return json.load(f)


def known_keys(prop: str) -> dict:
    return {
        k["key"]: k
        for k in load_known()
        if k.get("property") == prop and k.get("status") == "known"
    }


def finish(ctx: Ctx, t0: float, controls: dict | None, meta: dict) -> int:
    """Print the report, write evidence, return the exit status."""
    prop = ctx.prop
    known = known_keys(prop)
    refuted = [f for f in ctx.findings if f.verdict == REFUTED]
    unknown = [f for f in ctx.findings if f.verdict == UNKNOWN]
    proved = [f for f in ctx.findings if f.verdict == PROVED]
    new = [f for f in refuted if f.key not in known]
    old = [f for f in refuted if f.key in known]
    floor_fail = [(n, g, fl) for n, g, fl in ctx.floors if g < fl]
    control_fail = []
    if controls:
        control_fail = controls.get("missed", []) + controls.get("false_alarm", [])

    os.makedirs(os.path.join(EVIDENCE_DIR, "replay"), exist_ok=True)
    lines = []
    for f in old:
        lines.append(f"KNOWN-FINDING: property={prop} {f.key} -- {known[f.key].get('what', f.detail)} [{f.loc}]")
    replay_paths = []
    for i, f in enumerate(new):
        path = os.path.join(EVIDENCE_DIR, "replay", f"{prop}-{i}.json")
        with open(path, "w") as fh:
            json.dump({"property": prop, "tier": ctx.tier, "finding": asdict(f)}, fh, indent=1)
        replay_paths.append(path)
        lines.append(f"  {f.loc}: [{f.rule}] {f.construct}: {f.detail}")
        lines.append(f"VIOLATION property={prop} replay={path}")
    for f in unknown:
        lines.append(f"ANALYSIS-ERROR property={prop} [{f.rule}] {f.construct} {f.loc}: {f.detail}")
    for n, g, fl in floor_fail:
        lines.append(f"ANALYSIS-ERROR property={prop} instance floor: {n} analysed {g} < {fl} confirmed by hand")
    for c in control_fail:
        lines.append(f"ANALYSIS-ERROR property={prop} self-validation: {c}")

    status = 0
    if new:
        status = 1
    elif unknown or floor_fail or control_fail:
        status = 2

    wall = time.time() - t0
    nontrivial = {f.key for f in ctx.findings if not f.trivial and f.verdict != UNKNOWN}
    samples = [
        {"rule": f.rule, "construct": f.construct, "loc": f.loc, "verdict": f.verdict, "detail": f.detail[:600]}
        for f in (refuted + proved)[:40]
    ]
    coverage = {
        "explanation": meta.get("explanation", ""),
        "rule": "one case = one rule instance (rule x construct x discriminator) decided from the parsed source of /repo; "
        "non-trivial = the verdict needed at least one normal-form comparison, path query or table lookup against code found in the tree (presence-only anchors are trivial)",
        "evaluations": len(ctx.findings),
        "distinct_nontrivial": len(nontrivial),
        "obligations": len(ctx.findings),
        "discharged": len(proved),
        "refuted": len(refuted),
        "refuted_known": len(old),
        "undecided": len(unknown),
        "checker_cmd": meta.get("cmd", ""),
        "trusted_base": meta.get("trusted_base", []),
        "exhaustive": not unknown and not floor_fail,
        "samples": samples,
        "analysed": dict(ctx.analysed, **ctx.repo.stats()) if ctx.repo is not None else dict(ctx.analysed),
        "floors": [{"name": n, "analysed": g, "floor": fl} for n, g, fl in ctx.floors],
        "rules": sorted({f.rule for f in ctx.findings}),
        "known_findings_reported": [f.key for f in old],
        "not_decided": meta.get("not_decided", ""),
    }
    if controls is not None:
        coverage["self_validation"] = {k: (v if not isinstance(v, list) else v[:50]) for k, v in controls.items()}
    evidence = {
        "property_id": prop,
        "tier": ctx.tier,
        "seed": int(os.environ.get("VERIF_SEED", "0") or 0),
        "level": "other",
        "coverage": coverage,
        "assumptions": meta.get("assumptions", []),
        "wall_s": round(wall, 3),
        "violations": len(new),
    }
    with open(os.path.join(EVIDENCE_DIR, f"{prop}.json"), "w") as fh:
        json.dump(evidence, fh, indent=1, default=str)

    if not ctx.quiet:
        print(f"== {prop} [{ctx.tier}] {len(ctx.findings)} rule instances: {len(proved)} proved, "
              f"{len(refuted)} refuted ({len(old)} known), {len(unknown)} undecided; {wall:.2f}s")
        by_rule: dict = {}
        for f in ctx.findings:
            by_rule.setdefault(f.rule, [0, 0, 0])
            by_rule[f.rule][[PROVED, REFUTED, UNKNOWN].index(f.verdict)] += 1
        for r in sorted(by_rule):
            p, q, u = by_rule[r]
            print(f"   {r:<14} proved={p} refuted={q} undecided={u}")
        if controls is not None:
            print(f"   self-validation: seeded {controls.get('seeded', 0)} detected {controls.get('detected', 0)} "
                  f"inapplicable {controls.get('inapplicable', 0)}; neutral {controls.get('neutral', 0)} silent {controls.get('silent', 0)}")
        for ln in lines:
            print(ln)
    return status
