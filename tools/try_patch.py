#!/venv/bin/python
"""try_patch.py <patch.diff> [<Cnn> ...]: apply a patch to a scratch copy of /repo/src and run the quick checks
(all, or the named ones) against it without controls.  Development helper, not a check."""
import os
import shutil
import subprocess
import sys
import tempfile

sys.path.insert(0, os.path.dirname(os.path.abspath(__file__)))
from run_seeded import PROPS, VERIF  # noqa: E402


def main():
    patch = os.path.abspath(sys.argv[1])
    props = [p.upper() for p in sys.argv[2:]] or PROPS
    tmp = tempfile.mkdtemp(prefix="trypatch_")
    try:
        shutil.copytree("/repo/src", os.path.join(tmp, "src"))
        r = subprocess.run(["patch", "-p1", "-s", "-i", patch], cwd=tmp, capture_output=True, text=True)
        if r.returncode != 0:
            print("PATCH DOES NOT APPLY", r.stdout, r.stderr)
            return 3
        env = dict(os.environ, ASPIRE_REPO=tmp, PYTHONDONTWRITEBYTECODE="1", ASPIRE_SA_EVIDENCE_DIR=os.path.join(tmp, "evidence"))
        import concurrent.futures as cf

        def one(p):
            r = subprocess.run(["/venv/bin/python", "-m", "aspire_sa", "check", p, "--no-controls"], cwd=VERIF, env=env,
                               capture_output=True, text=True)
            return p, r
        with cf.ThreadPoolExecutor(8) as ex:
            for p, r in ex.map(one, props):
                lines = [l for l in r.stdout.splitlines() if (l.startswith("  ") and "[" in l) or l.startswith("ANALYSIS-ERROR")]
                print(p, "exit", r.returncode)
                for l in lines[:8]:
                    print("    ", l.strip()[:500])
                if r.returncode == 2 and not lines:
                    print(r.stdout[-800:], r.stderr[-800:])
    finally:
        shutil.rmtree(tmp, ignore_errors=True)


if __name__ == "__main__":
    sys.exit(main())
