#!/venv/bin/python
"""Development helper: alpha-rename the local variables of chosen functions in a
scratch copy of /repo/src (behaviour preserving) and run every check on it.
A REFUTED verdict on such a copy is a false alarm (a rule keyed on a local's
spelling); an UNKNOWN is tolerated but listed."""
import ast
import os
import shutil
import subprocess
import sys
import tempfile

VERIF = os.path.dirname(os.path.dirname(os.path.abspath(__file__)))
PROPS = [f"C{i:02d}" for i in range(2, 21)]


class Renamer(ast.NodeTransformer):
    def __init__(self, mapping):
        self.m = mapping

    def visit_Name(self, n):
        if n.id in self.m:
            n.id = self.m[n.id]
        return n

    def visit_FunctionDef(self, n):  # nested closures see the renamed free variables; their own params stay
        self.generic_visit(n)
        return n


def locals_of(fn):
    params = {a.arg for a in fn.args.posonlyargs + fn.args.args + fn.args.kwonlyargs}
    if fn.args.vararg:
        params.add(fn.args.vararg.arg)
    if fn.args.kwarg:
        params.add(fn.args.kwarg.arg)
    nested_params = set()
    for n in ast.walk(fn):
        if isinstance(n, (ast.FunctionDef, ast.Lambda)) and n is not fn:
            a = n.args
            nested_params |= {x.arg for x in a.posonlyargs + a.args + a.kwonlyargs}
    stored = set()
    for n in ast.walk(fn):
        if isinstance(n, ast.Name) and isinstance(n.ctx, ast.Store):
            stored.add(n.id)
    imported = set()
    for n in ast.walk(fn):
        if isinstance(n, (ast.Import, ast.ImportFrom)):
            imported |= {(a.asname or a.name).split(".")[0] for a in n.names}
    return sorted(stored - params - nested_params - imported)


def main():
    targets = sys.argv[1:]  # path::Class.func or path::func
    tmp = tempfile.mkdtemp(prefix="alpha_")
    shutil.copytree("/repo/src", os.path.join(tmp, "src"))
    for t in targets:
        rel, q = t.split("::")
        p = os.path.join(tmp, rel)
        tree = ast.parse(open(p).read())
        body = tree.body
        node = None
        for part in q.split("."):
            node = next(n for n in body if isinstance(n, (ast.FunctionDef, ast.ClassDef)) and n.name == part)
            body = node.body
        names = locals_of(node)
        mapping = {n: f"{n}_r" for n in names}
        Renamer(mapping).visit(node)
        open(p, "w").write(ast.unparse(tree) + "\n")
        print(f"{t}: renamed {len(names)} locals: {names}")
    ev_bak = tempfile.mkdtemp(prefix="evb_")
    shutil.copytree(os.path.join(VERIF, "evidence"), os.path.join(ev_bak, "evidence"))
    env = dict(os.environ, ASPIRE_REPO=tmp, PYTHONDONTWRITEBYTECODE="1")
    try:
        for p in PROPS:
            r = subprocess.run(["/venv/bin/python", "-m", "aspire_sa", "check", p, "--no-controls"], cwd=VERIF, env=env, capture_output=True, text=True)
            if r.returncode != 0:
                lines = [l.strip()[:260] for l in r.stdout.splitlines() if (l.startswith("  ") and "[" in l) or l.startswith("ANALYSIS-ERROR")]
                print(p, "exit", r.returncode)
                for l in lines[:6]:
                    print("    ", l)
    finally:
        shutil.rmtree(os.path.join(VERIF, "evidence"))
        shutil.copytree(os.path.join(ev_bak, "evidence"), os.path.join(VERIF, "evidence"))
        shutil.rmtree(ev_bak)
        shutil.rmtree(tmp)


main()
