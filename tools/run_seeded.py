#!/venv/bin/python
"""Run every check against every seeded change under /verif/seeded/<id>/.

Each change is applied to a scratch copy of /repo/src (outside /repo and /verif,
removed afterwards) and the engine is pointed at it with ASPIRE_REPO, so /repo is
never touched; evidence of these runs goes to a scratch directory
(ASPIRE_SA_EVIDENCE_DIR).  Writes /verif/seeded/RESULTS.md when run without
arguments.  Development helper, not a check.

usage: run_seeded.py [-j N] [--first-contact] [<seed id> ...]
"""
import concurrent.futures as cf
import json
import os
import shutil
import subprocess
import sys
import tempfile

VERIF = os.path.dirname(os.path.dirname(os.path.abspath(__file__)))
SEEDED = os.path.join(VERIF, "seeded")
PROPS = [f"C{i:02d}" for i in range(2, 21)]


def run_checks(root, props, evdir):
    out = {}
    env = dict(os.environ, ASPIRE_REPO=root, PYTHONDONTWRITEBYTECODE="1", ASPIRE_SA_EVIDENCE_DIR=evdir)
    for p in props:
        r = subprocess.run(["/venv/bin/python", "-m", "aspire_sa", "check", p, "--no-controls"], cwd=VERIF, env=env,
                           capture_output=True, text=True)
        viol = [l for l in r.stdout.splitlines() if l.startswith("  ") and "[" in l]
        out[p] = (r.returncode, viol, [l for l in r.stdout.splitlines() if l.startswith("ANALYSIS-ERROR")])
    return out


def one(sid):
    d = os.path.join(SEEDED, sid)
    patch = os.path.join(d, "patch.diff")
    meta = json.load(open(os.path.join(d, "meta.json")))
    tmp = tempfile.mkdtemp(prefix="seedrun_")
    try:
        shutil.copytree("/repo/src", os.path.join(tmp, "src"))
        r = subprocess.run(["patch", "-p1", "-s", "-i", patch], cwd=tmp, capture_output=True, text=True)
        if r.returncode != 0:
            return (sid, meta["property"], "PATCH DOES NOT APPLY", "", ""), {}, {}
        res = run_checks(tmp, PROPS, os.path.join(tmp, "evidence"))
    finally:
        shutil.rmtree(tmp, ignore_errors=True)
    hits = {p: v for p, (rc, v, e) in res.items() if rc == 1}
    errs = {p: e for p, (rc, v, e) in res.items() if rc == 2}
    target = meta["property"]
    status = "DETECTED" if target in hits else ("detected by other property" if hits else ("ANALYSIS-ERROR only" if errs else "MISSED"))
    first = hits.get(target, next(iter(hits.values()), [""]))
    return (sid, target, status, ", ".join(sorted(hits)), (first[0].strip()[:220] if first else "")), hits, errs


def main():
    args = sys.argv[1:]
    jobs = 8
    if "-j" in args:
        i = args.index("-j")
        jobs = int(args[i + 1])
        del args[i:i + 2]
    verbose = "-v" in args
    args = [a for a in args if a != "-v"]
    only = args
    sids = [s for s in sorted(os.listdir(SEEDED))
            if os.path.isfile(os.path.join(SEEDED, s, "patch.diff")) and (not only or s in only)]
    rows = []
    with cf.ThreadPoolExecutor(max_workers=jobs) as ex:
        for row, hits, errs in ex.map(one, sids):
            rows.append(row)
            print(row[0], row[1], row[2], sorted(hits), sorted(errs), flush=True)
            if verbose:
                for p, v in hits.items():
                    for l in v[:6]:
                        print("     ", p, l.strip()[:400])
                for p, e in errs.items():
                    for l in e[:3]:
                        print("     ", p, l.strip()[:400])
    if not only:
        with open(os.path.join(SEEDED, "RESULTS.md"), "w") as f:
            f.write("# Seeded changes vs checks\n\nEach change was written by an independent agent that saw only the property text and a scratch worktree.\n"
                    "Applied to a scratch copy of /repo/src; every quick check C02-C20 was run against it (`tools/run_seeded.py`).\n\n")
            f.write("| seeded change | breaks | result | checks reporting VIOLATION | first report |\n|---|---|---|---|---|\n")
            for r in rows:
                f.write("| " + " | ".join(str(x).replace("|", "\\|") for x in r) + " |\n")
            n = len(rows)
            det = sum(1 for r in rows if r[2] == "DETECTED")
            oth = sum(1 for r in rows if r[2] == "detected by other property")
            f.write(f"\n{det} of {n} detected by the check of the property they break, {oth} by another property's check only, {n - det - oth} not reported.\n")
    print(f"{len(rows)} seeded changes")


if __name__ == "__main__":
    main()
