#!/venv/bin/python
"""Run every check against every seeded change under /verif/seeded/<id>/.

Each change is applied to a scratch copy of /repo/src (outside /repo and /verif,
removed afterwards) and the engine is pointed at it with ASPIRE_REPO, so /repo is
never touched.  Writes /verif/seeded/RESULTS.md.  Development helper, not a check.
"""
import json
import os
import shutil
import subprocess
import sys
import tempfile

VERIF = os.path.dirname(os.path.dirname(os.path.abspath(__file__)))
SEEDED = os.path.join(VERIF, "seeded")
PROPS = [f"C{i:02d}" for i in range(2, 21)]


def run_checks(root, props):
    out = {}
    env = dict(os.environ, ASPIRE_REPO=root, PYTHONDONTWRITEBYTECODE="1")
    for p in props:
        r = subprocess.run(["/venv/bin/python", "-m", "aspire_sa", "check", p, "--no-controls"], cwd=VERIF, env=env,
                           capture_output=True, text=True)
        viol = [l for l in r.stdout.splitlines() if l.startswith("  ") and "[" in l]
        out[p] = (r.returncode, viol, [l for l in r.stdout.splitlines() if l.startswith("ANALYSIS-ERROR")])
    return out


def main():
    only = sys.argv[1:]
    rows = []
    saved_evidence = tempfile.mkdtemp(prefix="evid_")
    ev_dir = os.path.join(VERIF, "evidence")
    for f in os.listdir(ev_dir):
        if f.endswith(".json"):
            shutil.copy(os.path.join(ev_dir, f), saved_evidence)
    try:
        for sid in sorted(os.listdir(SEEDED)):
            d = os.path.join(SEEDED, sid)
            patch = os.path.join(d, "patch.diff")
            if not os.path.isfile(patch) or (only and sid not in only):
                continue
            meta = json.load(open(os.path.join(d, "meta.json")))
            tmp = tempfile.mkdtemp(prefix="seedrun_")
            try:
                shutil.copytree("/repo/src", os.path.join(tmp, "src"))
                r = subprocess.run(["patch", "-p1", "-s", "-i", patch], cwd=tmp, capture_output=True, text=True)
                if r.returncode != 0:
                    rows.append((sid, meta["property"], "PATCH DOES NOT APPLY", "", ""))
                    continue
                res = run_checks(tmp, PROPS)
            finally:
                shutil.rmtree(tmp, ignore_errors=True)
            hits = {p: v for p, (rc, v, e) in res.items() if rc == 1}
            errs = {p: e for p, (rc, v, e) in res.items() if rc == 2}
            target = meta["property"]
            status = "DETECTED" if target in hits else ("detected by other property" if hits else ("ANALYSIS-ERROR only" if errs else "MISSED"))
            first = hits.get(target, next(iter(hits.values()), [""]))
            rows.append((sid, target, status, ", ".join(sorted(hits)), (first[0].strip()[:220] if first else "")))
            print(sid, target, status, sorted(hits), sorted(errs))
    finally:
        for f in os.listdir(saved_evidence):
            shutil.copy(os.path.join(saved_evidence, f), ev_dir)
        shutil.rmtree(saved_evidence, ignore_errors=True)
        shutil.rmtree(os.path.join(ev_dir, "replay"), ignore_errors=True)
    with open(os.path.join(SEEDED, "RESULTS.md"), "w") as f:
        f.write("# Seeded changes vs checks\n\nEach change was written by an independent agent that saw only the property text and a scratch worktree.\n"
                "Applied to a scratch copy of /repo/src; every quick check C02-C20 was run against it (`tools/run_seeded.py`).\n\n")
        f.write("| seeded change | breaks | result | checks reporting VIOLATION | first report |\n|---|---|---|---|---|\n")
        for r in rows:
            f.write("| " + " | ".join(str(x).replace("|", "\\|") for x in r) + " |\n")
        n = len(rows)
        det = sum(1 for r in rows if r[2] == "DETECTED")
        oth = sum(1 for r in rows if r[2] == "detected by other property")
        f.write(f"\n{det} of {n} detected by the check of the property they break, {oth} by another property's check only, {n - det - oth} not reported.\n")
    print(f"{len(rows)} seeded changes")


if __name__ == "__main__":
    main()
