#!/venv/bin/python
"""Write aspire_sa/known_methods.txt: every class method of the package at the pinned tree (module:Class.method).
Extract-method normalisation (aspire_sa/inline.py) leaves these alone and inlines only private helpers that are not listed.
Development helper: rerun only when the pinned tree itself changes (e.g. after a fix: commit that adds a method)."""
import ast
import os
import sys

ROOT = sys.argv[1] if len(sys.argv) > 1 else "/repo"
out = []
base = os.path.join(ROOT, "src", "aspire")
for dp, dn, fns in os.walk(base):
    for fn in sorted(fns):
        if not fn.endswith(".py"):
            continue
        p = os.path.join(dp, fn)
        mod = os.path.relpath(p, os.path.join(ROOT, "src"))[:-3].replace(os.sep, ".")
        if mod.endswith(".__init__"):
            mod = mod[: -len(".__init__")]
        tree = ast.parse(open(p, encoding="utf-8").read())
        for c in ast.walk(tree):
            if isinstance(c, ast.ClassDef):
                for f in c.body:
                    if isinstance(f, (ast.FunctionDef, ast.AsyncFunctionDef)):
                        out.append(f"{mod}:{c.name}.{f.name}")
dst = os.path.join(os.path.dirname(os.path.dirname(os.path.abspath(__file__))), "aspire_sa", "known_methods.txt")
with open(dst, "w") as f:
    f.write("# methods of the pinned tree (tools/gen_known_methods.py); private helpers not listed here are inlined before analysis\n")
    f.write("\n".join(sorted(out)) + "\n")
print(len(out), "methods ->", dst)
