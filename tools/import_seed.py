#!/venv/bin/python
"""import_seed.py <PROP> [a|b ...]  -- confirm an agent's seeded change in its scratch
worktree /tmp/wt/<PROP> and, if everything holds, keep it as /verif/seeded/<PROP>-<x>/.

Confirmed here (independently of what the agent reported):
  * the patch applies to the unchanged worktree,
  * the demonstration exits 0 without the change and non-zero with it,
  * the pinned baseline test-suite still passes with the change (tools under /tmp/tools).
Development helper, not a check.
"""
import json
import os
import shutil
import subprocess
import sys

VERIF = os.path.dirname(os.path.dirname(os.path.abspath(__file__)))


def sh(cmd, cwd=None, env=None, timeout=3600):
    return subprocess.run(cmd, shell=True, cwd=cwd, env=env, capture_output=True, text=True, timeout=timeout)


def main():
    prop = sys.argv[1]
    which = sys.argv[2:] or ["a", "b"]
    root = os.environ.get("SEED_WT_ROOT", "/tmp/wt")
    wt = f"{root}/{prop}"
    out = f"{root}/{prop}_out"
    env = dict(os.environ, PYTHONPATH=f"{wt}/src")
    for x in which:
        d = os.path.join(out, x)
        patch, demo = os.path.join(d, "patch.diff"), os.path.join(d, "demo.py")
        sid = f"{prop}-{x}"
        if not (os.path.isfile(patch) and os.path.isfile(demo)):
            print(sid, "SKIP: deliverables missing")
            continue
        sh("git checkout -- . && git clean -fdq", cwd=wt)
        r0 = sh(f"/venv/bin/python {demo}", cwd=d, env=env, timeout=900)
        ap = sh(f"git apply {patch}", cwd=wt)
        if ap.returncode != 0:
            print(sid, "REJECT: patch does not apply:", ap.stderr[:200])
            continue
        r1 = sh(f"/venv/bin/python {demo}", cwd=d, env=env, timeout=900)
        tests = sh(f"/venv/bin/python /tmp/tools/check_tests.py {wt}", timeout=7200)
        files = sh("git diff --stat", cwd=wt).stdout.strip().splitlines()
        sh("git checkout -- . && git clean -fdq", cwd=wt)
        ok = r0.returncode == 0 and r1.returncode != 0 and tests.returncode == 0
        print(sid, "demo without:", r0.returncode, "with:", r1.returncode, "| tests:", tests.stdout.strip().splitlines()[0] if tests.stdout else tests.returncode,
              "=> KEEP" if ok else "=> REJECT")
        if not ok:
            if r0.returncode != 0:
                print("   demo on unchanged code:", (r0.stdout + r0.stderr)[-400:])
            continue
        dest = os.path.join(VERIF, "seeded", sid)
        os.makedirs(dest, exist_ok=True)
        shutil.copy(patch, os.path.join(dest, "patch.diff"))
        shutil.copy(demo, os.path.join(dest, "demo.py"))
        notes = os.path.join(d, "notes.md")
        if os.path.isfile(notes):
            shutil.copy(notes, os.path.join(dest, "notes.md"))
        needs = ""
        if os.path.isfile(notes):
            txt = open(notes).read()
            for line in txt.splitlines():
                if "manifest" in line.lower() and len(line) > 30:
                    needs = line.strip()[:400]
                    break
        meta = {
            "id": sid,
            "property": prop,
            "origin": "independent sub-agent given only the property text and a scratch worktree",
            "files_changed": files,
            "needs_to_manifest": needs or "see notes.md",
            "confirmed": {
                "patch_applies": True,
                "demo_exit_without_change": r0.returncode,
                "demo_exit_with_change": r1.returncode,
                "baseline_tests_with_change": tests.stdout.strip().splitlines()[0] if tests.stdout else "",
                "commands": [
                    f"git -C {wt} apply patch.diff",
                    f"PYTHONPATH={wt}/src /venv/bin/python demo.py",
                    f"/venv/bin/python /tmp/tools/check_tests.py {wt}",
                ],
            },
        }
        with open(os.path.join(dest, "meta.json"), "w") as f:
            json.dump(meta, f, indent=1)


if __name__ == "__main__":
    main()
