#!/venv/bin/python
"""Run the repository's pinned test command and compare with BASELINE.json:
every test in stable_pass must still pass.  (Development helper, not a check.)"""
import json, os, subprocess, sys, tempfile
import xml.etree.ElementTree as ET

base = json.load(open("/root/.vp/BASELINE.json"))
want = set(base["stable_pass"])
out = tempfile.mktemp(suffix=".xml", dir="/tmp")
cmd = base["cmd"].replace("<file>", out)
env = dict(os.environ)
subprocess.run(cmd, shell=True, stdout=subprocess.DEVNULL, stderr=subprocess.DEVNULL, env=env)
passed = set()
for tc in ET.parse(out).getroot().iter("testcase"):
    if not any(ch.tag in ("failure", "error", "skipped") for ch in tc):
        passed.add(f"{tc.get('classname')}::{tc.get('name')}")
os.remove(out)
missing = sorted(want - passed)
print(f"stable_pass={len(want)} passed_now={len(passed)} missing={len(missing)}")
for m in missing[:40]:
    print("  MISSING", m)
sys.exit(1 if missing else 0)
