#!/bin/sh
# process.sh PROP s1 s2 : first-contact run of both deliveries (kept if already recorded), then independent verification + import
P=$1; shift
cd /verif
for s in "$@"; do
  if [ -f /tmp/wt/${P}_out/$s/patch.diff ] && [ ! -f seeded/first_contact_r6/$P-$s.txt ]; then
    { head -1 /tmp/wt/${P}_out/$s/notes.md; /venv/bin/python tools/try_patch.py /tmp/wt/${P}_out/$s/patch.diff | grep -v "exit 0$"; } > seeded/first_contact_r6/$P-$s.txt 2>&1
  fi
done
/venv/bin/python tools/import_seed.py $P "$@" > /tmp/mytools/import_$P.log 2>&1
cat /tmp/mytools/import_$P.log
