#!/venv/bin/python
"""check_tests.py <worktree>: run the pinned test command inside <worktree> (with its src first on
PYTHONPATH) and compare with BASELINE.json: every stable_pass test must still pass."""
import json, os, subprocess, sys, tempfile
import xml.etree.ElementTree as ET
wt = os.path.abspath(sys.argv[1])
base = json.load(open("/root/.vp/BASELINE.json"))
want = set(base["stable_pass"])
out = tempfile.mktemp(suffix=".xml", dir="/tmp")
cmd = base["cmd"].replace("<file>", out).replace("cd /repo", f"cd {wt}")
env = dict(os.environ, PYTHONPATH=f"{wt}/src", PYTHONDONTWRITEBYTECODE="1")
for k in ("OMP_NUM_THREADS", "MKL_NUM_THREADS", "OPENBLAS_NUM_THREADS", "NUMEXPR_NUM_THREADS"):
    env.setdefault(k, "2")
env.setdefault("XLA_FLAGS", "--xla_cpu_multi_thread_eigen=false intra_op_parallelism_threads=2")
subprocess.run(cmd, shell=True, stdout=subprocess.DEVNULL, stderr=subprocess.DEVNULL, env=env)
passed = set()
try:
    for tc in ET.parse(out).getroot().iter("testcase"):
        if not any(ch.tag in ("failure", "error", "skipped") for ch in tc):
            passed.add(f"{tc.get('classname')}::{tc.get('name')}")
    os.remove(out)
except Exception as e:
    print("baseline tests: could not parse junit:", e); sys.exit(2)
missing = sorted(want - passed)
print(f"baseline tests: {len(want)}; passing now: {len(want & passed)}; broken by the change: {len(missing)}")
for m in missing[:40]:
    print("  BROKEN", m)
sys.exit(1 if missing else 0)
