#!/venv/bin/python
import json, os, subprocess, sys, glob
round_sfx = sys.argv[1:3]  # e.g. i j
props = {}
for l in open('/verif/properties.jsonl'):
    d = json.loads(l); props[d['id']] = d
for pid in [f"C{i:02d}" for i in range(2, 21)]:
    wt = f"/tmp/wt/{pid}"
    if not os.path.isdir(wt):
        subprocess.run(["git", "-C", "/repo", "worktree", "add", "--detach", wt, "HEAD"], check=True, capture_output=True)
    out = f"/tmp/wt/{pid}_out"
    for s in round_sfx:
        os.makedirs(f"{out}/{s}", exist_ok=True)
    titles = []
    for nd in sorted(glob.glob(f"/verif/seeded/{pid}-*/notes.md")):
        t = open(nd).readline().strip().lstrip('# ').strip()
        titles.append(t)
    d = props[pid]
    brief = f"""# Property {pid}: {d['title']}

## Statement
{d['statement']}

## Quantifier
{json.dumps(d['quantifier'], indent=1)}

## Why the existing tests cannot settle it
{d['why_tests_cant']}

## Anchors (where the mechanism lives)
{json.dumps(d['anchors'], indent=1)}

## Changes other people already tried for this property (do NOT repeat these or close variants)
""" + "\n".join(f"- {t}" for t in titles) + "\n"
    open(f"/tmp/wt/{pid}_brief.md", "w").write(brief)
    print(pid, len(titles))
