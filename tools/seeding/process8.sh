#!/bin/sh
P=$1; shift
cd /verif
for s in "$@"; do
  if [ -f /tmp/wt8/${P}_out/$s/patch.diff ] && [ ! -f seeded/first_contact_r8/$P-$s.txt ]; then
    { head -1 /tmp/wt8/${P}_out/$s/notes.md; /venv/bin/python tools/try_patch.py /tmp/wt8/${P}_out/$s/patch.diff | grep -v "exit 0$"; } > /tmp/mytools/fc8_$P-$s.tmp 2>&1
    mv /tmp/mytools/fc8_$P-$s.tmp seeded/first_contact_r8/$P-$s.txt
  fi
done
SEED_WT_ROOT=/tmp/wt8 /venv/bin/python tools/import_seed.py $P "$@" > /tmp/mytools/import8_$P.log 2>&1
