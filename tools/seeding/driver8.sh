#!/bin/bash
cd /verif
todo="C02 C03 C04 C05 C06 C07 C08 C09 C10 C11 C12 C13 C14 C15 C16 C17 C18 C19 C20"
while [ -n "$todo" ]; do
  next=""
  for P in $todo; do
    if [ -f /tmp/wt8/${P}_out/o/patch.diff ] && [ -f /tmp/wt8/${P}_out/p/patch.diff ] && [ -f /tmp/wt8/${P}_out/.done ]; then
      while [ $(pgrep -fc "import_seed.py") -ge 5 ]; do sleep 20; done
      /tmp/mytools/process8.sh $P o p > /dev/null 2>&1 &
      sleep 5
    else
      next="$next $P"
    fi
  done
  todo="$next"
  sleep 30
done
