#!/venv/bin/python
"""Development helper: run every property's rules on the auto-mutants of one
function whose description contains a substring; print which rules notice."""
import importlib
import os
import sys

sys.path.insert(0, os.path.dirname(os.path.dirname(os.path.abspath(__file__))))
from aspire_sa.automut import generate  # noqa: E402
from aspire_sa.model import Repo  # noqa: E402
from aspire_sa.report import REFUTED, UNKNOWN, Ctx  # noqa: E402

PROPS = [f"C{i:02d}" for i in range(2, 21)]


def main():
    ident, sub = sys.argv[1], (sys.argv[2] if len(sys.argv) > 2 else "")
    repo = Repo()
    base = {}
    for p in PROPS:
        mod = importlib.import_module(f"aspire_sa.rules.{p.lower()}")
        ctx = Ctx(p, "quick", repo)
        mod.run(ctx)
        base[p] = {f.key for f in ctx.findings if f.verdict in (REFUTED, UNKNOWN)}
    for name, path, src in generate(repo, [ident], limit_per_function=200):
        if sub not in name:
            continue
        r = Repo(overlay={path: src})
        hits = []
        for p in PROPS:
            mod = importlib.import_module(f"aspire_sa.rules.{p.lower()}")
            ctx = Ctx(p, "quick", r)
            try:
                mod.run(ctx)
            except Exception as e:  # noqa: BLE001
                hits.append(f"{p}:ERR {type(e).__name__}")
                continue
            for f in ctx.findings:
                if f.verdict in (REFUTED, UNKNOWN) and f.key not in base[p]:
                    hits.append(f"{f.verdict[:3]} {f.key}")
        print(name.split(":", 1)[1], "->", hits[:4] or "SILENT")


main()
