"""Unchanged library: a capped run with n_final_samples, resumed with a larger cap,
computes the next evidence step on a population that is not the recorded one."""
import math
import pickle

import array_api_compat.numpy as xp
import numpy as np

from aspire.samplers.smc.base import SMCSampler
from aspire.samples import SMCSamples


class Flow:
    def __init__(self, seed):
        self.rng = np.random.default_rng(seed)

    def log_prob(self, x):
        x = np.asarray(x)
        return np.sum(-0.5 * (x / 3) ** 2 - math.log(3 * math.sqrt(2 * math.pi)), axis=-1)

    def sample_and_log_prob(self, n):
        x = self.rng.normal(0, 3, size=(n, 2))
        return x, self.log_prob(x)


def ll(s):
    return np.sum(-0.5 * ((np.asarray(s.x) - 2) / 0.5) ** 2 - math.log(0.5 * math.sqrt(2 * math.pi)), axis=-1)


def lp(s):
    return np.sum(np.where(abs(np.asarray(s.x)) <= 10, math.log(1 / 20), -np.inf), axis=-1)


class Demo(SMCSampler):
    sampler_kwargs = None

    def ev(self, x, beta):
        s = SMCSamples(x, xp=self.xp, beta=beta, dtype=self.dtype, parameters=self.parameters)
        s.log_q = s.array_to_namespace(self.prior_flow.log_prob(s.x))
        s.log_prior = s.array_to_namespace(self.log_prior(s))
        s.log_likelihood = s.array_to_namespace(self.log_likelihood(s))
        return s

    def mutate(self, p, beta, n_steps=None):
        xn = p.x + 0.3 * self.rng.normal(size=p.x.shape)
        q = self.ev(xn, beta)
        la = q.log_p_t(beta) - p.log_p_t(beta)
        la = np.where(np.isnan(la), -np.inf, la)
        acc = np.log(self.rng.uniform(size=la.shape)) < la
        return self.ev(np.where(acc[:, None], xn, p.x), beta)


def mk(seed):
    return Demo(log_likelihood=ll, log_prior=lp, dims=2, prior_flow=Flow(seed), xp=xp,
                parameters=["a", "b"], rng=np.random.default_rng(seed))


states = []
a = mk(1)
a.sample(300, adaptive=True, target_efficiency=0.8, max_n_steps=3, min_step=0.0,
         n_final_samples=600, checkpoint_callback=lambda s: states.append(pickle.dumps(s)))
st = pickle.loads(states[-1])
print("final checkpoint: meta", st["meta"], "| particles", len(st["samples"]),
      "| samples.beta", st["samples"].beta,
      "| last recorded population has", len(st["history"].sample_history[-1]), "particles")

b = mk(2)
res = b.sample(300, adaptive=True, target_efficiency=0.8, max_n_steps=20, min_step=0.0,
               resume_from=states[-1])
h = b.history
temps = [0.0] + [float(t) for t in h.beta]
for k in range(len(h.log_norm_ratio)):
    pop = h.sample_history[k]
    lw = (temps[k + 1] - temps[k]) * (pop.log_likelihood + pop.log_prior - pop.log_q)
    rec = lw.max() + math.log(np.mean(np.exp(lw - lw.max())))
    ok = math.isclose(rec, float(h.log_norm_ratio[k]), rel_tol=1e-9)
    print(f"step {k + 1}: beta {temps[k]:.4f} -> {temps[k + 1]:.4f}  recorded {float(h.log_norm_ratio[k]):.6f}"
          f"  recomputed from recorded population {rec:.6f}  {'ok' if ok else 'MISMATCH'}")
print("log Z of the resumed run", float(res.log_evidence), "(analytic value: log(1/400) = -5.99)")
