"""Triage (NOT a check): on the real aspire code, an importance-sampling call that targets a file already holding an SMC
checkpoint rewrites /flow (the refitted flow) and /aspire_config (sampler_type importance) but keeps /checkpoint/state,
whose particles were weighted under the earlier flow; resume_from_file then pairs that population with the new flow and
the stored configuration no longer names the sampler that wrote the checkpoint.  Exit 1 when the mismatch is observed."""
import os
import pickle
import sys
import tempfile

import numpy as np

sys.path.insert(0, os.path.dirname(os.path.abspath(__file__)))
from stub_smc import StubSMC  # noqa: E402

from aspire import Aspire  # noqa: E402
from aspire.samples import Samples  # noqa: E402
from aspire.utils import AspireFile  # noqa: E402


class A(Aspire):
    def get_sampler_class(self, sampler_type):
        return StubSMC if sampler_type == "smc" else super().get_sampler_class(sampler_type)


def loglike(s):
    return -0.5 * np.sum(np.asarray(s.x) ** 2, axis=-1)


def logprior(s):
    return np.zeros(len(s.x))


def main():
    rng = np.random.default_rng(0)
    tmp = os.path.join(tempfile.mkdtemp(prefix="imp_after_smc_"), "run.h5")
    a = A(log_likelihood=loglike, log_prior=logprior, dims=2, parameters=["a", "b"], flow_backend="zuko", seed=1, xp=np)
    a.fit(Samples(rng.normal(size=(200, 2)), parameters=["a", "b"]), n_epochs=2)
    a.sample_posterior(n_samples=64, sampler="smc", n_steps=2, adaptive=False, checkpoint_path=tmp, checkpoint_every=1)
    # refit in memory, then an importance-sampling call pointed at the same file
    a.fit(Samples(3.0 + 0.1 * rng.normal(size=(200, 2)), parameters=["a", "b"]), n_epochs=2)
    a.sample_posterior(n_samples=32, sampler="importance", checkpoint_path=tmp)
    with AspireFile(tmp, "r") as f:
        keys = sorted(f.keys())
        stype = f["aspire_config"].attrs.get("sampler_type", None) if "aspire_config" in f else None
        if stype is None and "aspire_config" in f and "sampler_type" in f["aspire_config"]:
            stype = f["aspire_config"]["sampler_type"][()]
    print("file groups:", keys, "| stored sampler_type:", stype)
    r = A.resume_from_file(tmp, log_likelihood=loglike, log_prior=logprior, sampler="smc")
    state = pickle.loads(r._resume_from_default)
    pop = state["samples"]
    lq_file_flow = np.asarray(r.flow.log_prob(np.asarray(pop.x))).ravel()
    err = float(np.max(np.abs(lq_file_flow - np.asarray(pop.log_q).ravel())))
    print("max |log_q stored with the checkpointed particles - log_prob of the flow now in the file| =", err)
    return 1 if err > 1e-3 else 0


if __name__ == "__main__":
    sys.exit(main())
