"""Triage (NOT a check): demonstrate C20 known findings against aspire's real
code with stand-ins for the absent third-party packages (orng, minipcn, emcee)."""
import sys, types, numpy as np

# ---- stand-ins
orng = types.ModuleType("orng")
class ArrayRNG:
    def __init__(self, backend=None): self.backend = backend; self._g = np.random.default_rng()
    def choice(self, *a, **k): return self._g.choice(*a, **k)
orng.ArrayRNG = ArrayRNG; sys.modules["orng"] = orng
minipcn = types.ModuleType("minipcn")
seen = {}
class Sampler:
    def __init__(self, log_prob_fn, step_fn, rng, dims, target_acceptance_rate, xp=None):
        seen.setdefault("minipcn_rng", []).append(rng); self.fn = log_prob_fn
    def sample(self, z, n_steps=1):
        class H: acceptance_rate = [1.0]
        return np.asarray(z)[None], H()
minipcn.Sampler = Sampler; sys.modules["minipcn"] = minipcn
emcee = types.ModuleType("emcee")
class EnsembleSampler:
    def __init__(self, *a, **k): seen.setdefault("emcee_ctor", []).append(sorted(k)); self.n = a[0]; self.d = a[1]
    def run_mcmc(self, z, *a, **k): seen.setdefault("emcee_run", []).append(sorted(k)); self.z = np.asarray(z)
    acceptance_fraction = np.ones(3)
    def get_autocorr_time(self, **k): return 1.0
    def get_chain(self, flat=False, discard=0): return self.z if flat else self.z[None]
emcee.EnsembleSampler = EnsembleSampler; sys.modules["emcee"] = emcee

from stub_smc import GaussFlow
from aspire.samplers.smc.minipcn import MiniPCNSMC
from aspire.samplers.mcmc import Emcee
ll = lambda s: -0.5 * np.sum((np.asarray(s.x) / 0.5) ** 2, axis=-1)
lp = lambda s: np.zeros(len(s.x))
g = np.random.default_rng(123)
s = MiniPCNSMC(ll, lp, 2, GaussFlow(2), np, rng=g)
print("constructor generator held:", s.rng is g)
s.sample(50, adaptive=True)
print("generator used for resampling / kernels after sample():", type(s.rng).__name__, "is the user's generator:", s.rng is g)
print("generator handed to the minipcn kernel is the user's:", all(r is g for r in seen["minipcn_rng"]))
e = Emcee(ll, lp, 2, GaussFlow(2), np)
e.sample(20, nsteps=2, rng=np.random.default_rng(5))
print("emcee EnsembleSampler keywords:", seen["emcee_ctor"][-1], "run_mcmc keywords:", seen["emcee_run"][-1], "(no random source reaches emcee; the rng argument is unused)")
