"""Triage demo (not a check): a torch sampler built for float64 without a preconditioning transform rounds its populations to float32.

Sampler.__init__ falls back to IdentityTransform(xp=self.xp) -- no dtype -- which for torch takes the default dtype float32;
fit_preconditioning_transform casts the population to the transform's dtype before the kernel sees it, and mutate() builds the
next population from the kernel's (float32) state.  Exit 0 when the array handed to the kernel keeps the sampler's float64."""
import sys

import array_api_compat.torch as xp
import torch

from aspire.samplers.base import Sampler

s = Sampler(log_likelihood=lambda s_: None, log_prior=lambda s_: None, dims=2, prior_flow=None, xp=xp, dtype=torch.float64)
x = torch.rand(8, 2, dtype=torch.float64) + 1e-9
z = s.fit_preconditioning_transform(x)
print("sampler dtype", s.dtype, "| identity transform dtype", s.preconditioning_transform.dtype, "| array handed to the kernel", z.dtype,
      "| max |z - x| =", float((z.double() - x).abs().max()))
sys.exit(0 if z.dtype == torch.float64 else 1)
