"""One PoolHandler object entered twice (with h: with h: ...): the second __enter__ overwrites the saved originals with the pool-aware wrappers,
so leaving both levels does not restore the instance."""
import sys
import numpy as np
from aspire import Aspire


class FakePool:
    def map(self, f, xs):
        return list(map(f, xs))

    def close(self):
        pass

    def join(self):
        pass


def ll(samples, map_fn=map):
    return np.zeros(len(samples.x))


def lp(samples, map_fn=map):
    return np.zeros(len(samples.x))


a = Aspire(log_likelihood=ll, log_prior=lp, dims=1, parameters=["a"])
h = a.enable_pool(FakePool(), close_pool=False)
with h:
    with h:
        pass
print("log_likelihood after leaving both levels:", a.log_likelihood)
ok = a.log_likelihood is ll and a.log_prior is lp
print("restored:", ok)
sys.exit(0 if ok else 1)
