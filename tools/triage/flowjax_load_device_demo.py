"""A FlowJax built without device= saves, and must load again (C13: saved objects reload unchanged)."""
import sys, tempfile, os
import numpy as np
import h5py
import jax
from aspire.flows.jax.flows import FlowJax

f = FlowJax(dims=2, key=jax.random.key(1))
x = np.zeros((3, 2), dtype=np.float32)
lp = np.asarray(f.log_prob(x))
d = tempfile.mkdtemp()
p = os.path.join(d, "f.h5")
with h5py.File(p, "w") as h:
    f.save(h, "flow")
try:
    with h5py.File(p, "r") as h:
        g = FlowJax.load(h, "flow")
except KeyError as e:
    print("load raised KeyError", e)
    sys.exit(1)
lp2 = np.asarray(g.log_prob(x))
print("max |log_prob difference| after reload:", float(np.max(np.abs(lp - lp2))))
sys.exit(0 if np.allclose(lp, lp2) else 1)
