"""from_dict(to_dict(s)) must give back an equal set (to_dict defaults to the flat layout): a parameter named like a field must not overwrite that field."""
import sys
import numpy as np
from aspire.samples import SMCSamples

s = SMCSamples(x=np.arange(8.0).reshape(4, 2), parameters=["alpha", "beta"], beta=0.25,
               log_likelihood=np.zeros(4), log_prior=np.zeros(4), log_q=np.zeros(4))
t = SMCSamples.from_dict(s.to_dict())
print("beta before:", s.beta, "after:", t.beta, "| x equal:", np.array_equal(np.asarray(s.x), np.asarray(t.x)))
sys.exit(0 if t.beta == s.beta and np.array_equal(np.asarray(s.x), np.asarray(t.x)) else 1)
