"""Aspire.convert_to_samples(x, evaluate=True): the prior is evaluated first, then the likelihood on a set that carries that prior, and the weights follow."""
import sys
import numpy as np
from aspire import Aspire

seen = {}


def log_prior(samples, **kw):
    return -0.5 * (np.asarray(samples.x) ** 2).sum(-1)


def log_likelihood(samples, **kw):
    seen["prior_present"] = samples.log_prior is not None
    return np.zeros(len(samples.x))


a = Aspire(log_likelihood=log_likelihood, log_prior=log_prior, dims=2, parameters=["a", "b"])
x = np.random.default_rng(0).normal(size=(5, 2))
try:
    s = a.convert_to_samples(x, log_q=np.zeros(5), evaluate=True)
except AttributeError as e:
    print("convert_to_samples raised AttributeError:", e)
    sys.exit(1)
print("likelihood saw the prior:", seen.get("prior_present"), "| log_w:", np.asarray(s.log_w)[:2])
sys.exit(0 if seen.get("prior_present") else 1)
