"""Proposal outputs can be consumed in any supported sample namespace: FlowJax.sample_and_log_prob(n, xp=torch) must return the draws as an (n, d) torch tensor
with the values of the JAX arrays."""
import sys
import numpy as np
import jax
import torch  # noqa: F401
import array_api_compat.torch as txp
from aspire.flows.jax.flows import FlowJax

f = FlowJax(dims=2, key=jax.random.key(1))
g = FlowJax(dims=2, key=jax.random.key(1))
x_t, lq_t = f.sample_and_log_prob(4, xp=txp)
x_j, lq_j = g.sample_and_log_prob(4)
print("torch output:", tuple(x_t.shape), x_t.dtype, "| jax output:", tuple(x_j.shape), x_j.dtype)
ok = tuple(x_t.shape) == (4, 2) and np.allclose(np.asarray(x_t), np.asarray(x_j)) and np.allclose(np.asarray(lq_t), np.asarray(lq_j))
print("same values:", ok)
sys.exit(0 if ok else 1)
