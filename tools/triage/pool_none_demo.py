"""enable_pool(None): __enter__ provides for 'no pool', __exit__ must not raise; an exception of the with-body must propagate as itself."""
import sys
import numpy as np
from aspire import Aspire


def ll(samples, map_fn=map):
    return np.zeros(len(samples.x))


def lp(samples, map_fn=map):
    return np.zeros(len(samples.x))


a = Aspire(log_likelihood=ll, log_prior=lp, dims=1, parameters=["a"])
bad = 0
try:
    with a.enable_pool(None):
        pass
    print("normal exit: ok")
except AttributeError as e:
    print("normal exit raised", repr(e)); bad += 1
try:
    with a.enable_pool(None):
        raise KeyError("body")
except KeyError:
    print("body exception propagated: ok")
except AttributeError as e:
    print("body exception replaced by", repr(e)); bad += 1
print("restored:", a.log_likelihood is ll and a.log_prior is lp)
sys.exit(1 if bad else 0)
