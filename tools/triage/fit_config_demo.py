"""Triage (NOT a check): on the real aspire code, fit(..., checkpoint_path=f) rewrites /aspire_config in a file that
already holds an SMC checkpoint, with the sampler type the instance used *last* (here: importance, run without a file):
the stored configuration then names a sampler that did not write the stored checkpoint.  Exit 1 when observed."""
import os
import sys
import tempfile

import numpy as np

sys.path.insert(0, os.path.dirname(os.path.abspath(__file__)))
from stub_smc import StubSMC  # noqa: E402

from aspire import Aspire  # noqa: E402
from aspire.samples import Samples  # noqa: E402
from aspire.utils import AspireFile, load_from_h5_file  # noqa: E402


class A(Aspire):
    def get_sampler_class(self, sampler_type):
        return StubSMC if sampler_type == "smc" else super().get_sampler_class(sampler_type)


def loglike(s):
    return -0.5 * np.sum(np.asarray(s.x) ** 2, axis=-1)


def logprior(s):
    return np.zeros(len(s.x))


def stored_type(path):
    with AspireFile(path, "r") as f:
        cfg = load_from_h5_file(f, "aspire_config")
    return cfg.get("sampler_type")


def main():
    rng = np.random.default_rng(0)
    tmp = os.path.join(tempfile.mkdtemp(prefix="fitcfg_"), "run.h5")
    a = A(log_likelihood=loglike, log_prior=logprior, dims=2, parameters=["a", "b"], flow_backend="zuko", seed=1, xp=np)
    data = Samples(rng.normal(size=(200, 2)), parameters=["a", "b"])
    a.fit(data, n_epochs=2)
    a.sample_posterior(n_samples=64, sampler="smc", n_steps=2, adaptive=False, checkpoint_path=tmp, checkpoint_every=1)
    before = stored_type(tmp)
    a.sample_posterior(n_samples=32, sampler="importance")  # no file involved
    a.fit(data, n_epochs=1, checkpoint_path=tmp)  # keeps /flow (no overwrite) but rewrites /aspire_config
    after = stored_type(tmp)
    with AspireFile(tmp, "r") as f:
        has_ckpt = "checkpoint" in f
    print("checkpoint in file:", has_ckpt, "| sampler_type before fit:", before, "| after fit:", after)
    return 1 if has_ckpt and before != after else 0


if __name__ == "__main__":
    sys.exit(main())
