"""Triage demo (not a check): under torch with dtype float64 the composite transform's log-Jacobian comes back in float32.

CompositeTransform.forward / inverse allocate the accumulator with xp.zeros(len(x)) -- torch's *default* dtype,
float32 -- and add the per-stage log-Jacobians with `+=`, which in torch keeps the accumulator's dtype.  The
float64 per-stage values are therefore rounded to float32 (about 7 digits) although the transform was built for
float64.  Exit 0 when the returned log-Jacobian has the transform's dtype, 1 otherwise.
"""
import sys

import array_api_compat.torch as xp
import torch

from aspire.transforms import CompositeTransform

t = CompositeTransform(parameters=["a", "b"], periodic_parameters=[], prior_bounds={"a": [0, 1], "b": [0, 1]},
                       bounded_to_unbounded=True, bounded_transform="logit", affine_transform=True, device="cpu",
                       xp=xp, eps=1e-6, dtype=torch.float64)
torch.manual_seed(0)
x = torch.rand(200, 2, dtype=torch.float64)
t.fit(x)
y, lj = t.forward(x)
xi, lji = t.inverse(y)
ref = (torch.log(1 / (x * (1 - x))).sum(-1) + t._affine_transform.log_abs_det_jacobian)
print("forward dtype", y.dtype, "log-Jacobian dtype", lj.dtype, "| inverse log-Jacobian dtype", lji.dtype)
print("max |log J - float64 reference| =", float((lj.double() - ref).abs().max()))
ok = lj.dtype == torch.float64 and lji.dtype == torch.float64
sys.exit(0 if ok else 1)
