"""A parameter name that contains the flattening separator ('.') must survive save / load in the (default) nested layout."""
import sys, os, tempfile
import numpy as np
import h5py
from aspire.samples import Samples

s = Samples(x=np.arange(6.0).reshape(3, 2), parameters=["m.1", "m.2"])
p = os.path.join(tempfile.mkdtemp(), "s.h5")
with h5py.File(p, "w") as h:
    s.save(h, "samples")
try:
    with h5py.File(p, "r") as h:
        t = Samples.load(h, "samples")
except Exception as e:  # noqa: BLE001
    print("load raised", type(e).__name__, e)
    sys.exit(1)
print("reloaded names:", t.parameters)
sys.exit(0 if list(t.parameters) == ["m.1", "m.2"] and np.array_equal(np.asarray(t.x), np.asarray(s.x)) else 1)
