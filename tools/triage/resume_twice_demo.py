"""Triage (NOT a check): on the real aspire code, resuming from a checkpoint *dictionary* hands the dictionary's own
history object to the sampler, which then appends to it: the checkpoint the caller still holds is rewritten by the
resumed run, and a second resume from the same dictionary sees a finished schedule.  Exit 1 when observed."""
import copy
import os
import sys

import numpy as np

sys.path.insert(0, os.path.dirname(os.path.abspath(__file__)))
from stub_smc import make  # noqa: E402


def main():
    states = []
    a = make(seed=3)
    a.sample(64, n_steps=4, adaptive=False, checkpoint_callback=lambda st: states.append(st), checkpoint_every=1)
    ck = states[1]  # checkpoint after iteration 2 of 4, kept by the caller
    betas_in_checkpoint = list(ck["history"].beta)
    frozen = copy.deepcopy(ck)

    b = make(seed=3)
    b.sample(64, n_steps=4, adaptive=False, resume_from=ck)
    after_first = list(ck["history"].beta)
    print("history.beta inside the caller's checkpoint before the resume:", betas_in_checkpoint)
    print("                                        after the resumed run:", after_first)

    c = make(seed=3)
    c.sample(64, n_steps=4, adaptive=False, resume_from=ck)
    d = make(seed=3)
    d.sample(64, n_steps=4, adaptive=False, resume_from=frozen)
    print("mutations in a second resume from the same dictionary:", c.n_mutations, "| from an untouched copy:", d.n_mutations)
    return 1 if (after_first != betas_in_checkpoint or c.n_mutations != d.n_mutations) else 0


if __name__ == "__main__":
    sys.exit(main())
