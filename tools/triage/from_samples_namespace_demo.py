"""Triage demo (not a check): from_samples(samples, xp=<another library>) without a dtype raises.

`dtype = kwargs.pop("dtype", samples.dtype)` makes the *source* set's dtype object the default of the caller's option; it is then
only resolve_dtype()d for the target namespace, which does not translate a dtype object of another library.  Exit 0 when the
conversion works for every ordered pair of NumPy / PyTorch / JAX and keeps the width, 1 otherwise."""
import sys

import array_api_compat.numpy as xnp
import array_api_compat.torch as xtorch
import jax.numpy as jnp
import numpy as np
import torch

from aspire.samples import BaseSamples, Samples, SMCSamples

NS = {"numpy": xnp, "torch": xtorch, "jax": jnp}


def make(cls, name, width):
    x = np.random.default_rng(0).random((6, 2)).astype(f"float{width}")
    ll = np.linspace(-1.0, 0.0, 6).astype(f"float{width}")
    conv = {"numpy": lambda a: a, "torch": torch.as_tensor, "jax": jnp.asarray}[name]
    kw = {"beta": 0.5} if cls is SMCSamples else {}
    return cls(conv(x), xp=NS[name], log_likelihood=conv(ll), dtype=f"float{width}", **kw)


bad = 0
for cls in (BaseSamples, Samples, SMCSamples):
    for src in NS:
        for dst in NS:
            s = make(cls, src, 32)
            try:
                r = cls.from_samples(s, xp=NS[dst])
                if "32" not in str(r.x.dtype):
                    raise AssertionError(f"width changed to {r.x.dtype}")
            except Exception as e:  # noqa: BLE001
                bad += 1
                print(f"{cls.__name__}.from_samples {src}->{dst}: {type(e).__name__}: {str(e)[:80]}")
print("failing conversions:", bad)
sys.exit(1 if bad else 0)
