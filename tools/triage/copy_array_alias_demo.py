"""Triage demo (not a check): copy_array(x, xp=torch) does not copy a NumPy input.

For a torch namespace and a non-torch input the helper returns xp.as_tensor(x), which shares memory with a NumPy array.  The
transforms rely on copy_array to obtain an array of their own before they update it in place (update_at_indices), so a torch-namespace
CompositeTransform that is handed the NumPy state of an MCMC kernel (the plain Emcee / MiniPCN samplers do that) writes the
parameter-space values into the kernel's latent array.  Exit 0 when the caller's array is untouched, 1 otherwise."""
import sys

import array_api_compat.torch as xp
import numpy as np
import torch

from aspire.transforms import CompositeTransform
from aspire.utils import copy_array

a = np.linspace(0.1, 0.9, 6).reshape(3, 2)
c = copy_array(a, xp=xp)
shares = np.shares_memory(a, c.numpy())
print("copy_array(numpy array, xp=torch) shares memory with its argument:", shares)

t = CompositeTransform(parameters=["a", "b"], periodic_parameters=[], prior_bounds={"a": [0, 1], "b": [0, 1]},
                       bounded_to_unbounded=True, bounded_transform="logit", affine_transform=False, device="cpu",
                       xp=xp, eps=1e-6, dtype=torch.float64)
z = np.array([[0.3, -1.2], [2.0, 0.1]])
z_before = z.copy()
x, _ = t.inverse(z)
changed = not np.array_equal(z, z_before)
print("kernel state z after transform.inverse(z):", z.tolist(), "(was", z_before.tolist(), ")")
sys.exit(1 if (shares or changed) else 0)
