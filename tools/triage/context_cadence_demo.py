"""Triage (NOT a check): inside an auto_checkpoint context an explicit checkpoint cadence is replaced by the context's.

sample_posterior(..., checkpoint_every=3) inside `with aspire.auto_checkpoint(f, every=1)`: the block that fills in the context defaults
assigns checkpoint_every = defaults["every"] whenever no checkpoint_path was given, whatever the caller asked for, so the sampler
checkpoints every iteration instead of every third.  Exit 1 when the sampler receives a cadence other than the requested one."""
import os
import sys
import tempfile

import numpy as np

sys.path.insert(0, os.path.dirname(os.path.abspath(__file__)))
from stub_smc import StubSMC  # noqa: E402

from aspire import Aspire  # noqa: E402
from aspire.samples import Samples  # noqa: E402

seen = {}


class Spy(StubSMC):
    def sample(self, n_samples, checkpoint_every=None, checkpoint_file_path=None, **kw):
        seen["checkpoint_every"] = checkpoint_every
        return super().sample(n_samples, checkpoint_every=checkpoint_every, checkpoint_file_path=checkpoint_file_path, **kw)


_orig = Aspire.get_sampler_class
Aspire.get_sampler_class = lambda self, t: Spy if t in ("smc", "minipcn_smc") else _orig(self, t)


def loglike(s):
    return -0.5 * np.sum(np.asarray(s.x) ** 2, axis=-1)


def logprior(s):
    return np.zeros(len(s.x))


rng = np.random.default_rng(0)
f = os.path.join(tempfile.mkdtemp(prefix="ctx_cadence_"), "run.h5")
a = Aspire(log_likelihood=loglike, log_prior=logprior, dims=2, parameters=["a", "b"], flow_backend="zuko", seed=1, xp=np)
a.fit(Samples(rng.normal(size=(200, 2)), parameters=["a", "b"]), n_epochs=2)
with a.auto_checkpoint(f, every=1):
    a.sample_posterior(n_samples=64, sampler="smc", n_steps=6, adaptive=False, checkpoint_every=3)
print("requested checkpoint_every=3 inside auto_checkpoint(every=1); the sampler received:", seen.get("checkpoint_every"))
sys.exit(0 if seen.get("checkpoint_every") == 3 else 1)
