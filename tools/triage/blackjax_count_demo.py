"""Triage demo (not a check): the likelihood counter of BlackJAXSMC counts traces, not evaluated points.

BlackJAXSMC hands `partial(self._jax_log_prob, beta=beta)` to a BlackJAX kernel and runs the kernel under jax.vmap / lax.scan.
`_jax_log_prob` goes through the counting wrapper Sampler.log_likelihood, whose `self.n_likelihood_evaluations += len(samples)` is a
Python side effect: under tracing it runs once per trace.  blackjax is not installed here, so the kernel is left out: the same
vectorised call of the very function the kernel receives shows the effect.  Exit 0 when the counter equals the number of points."""
import sys
from functools import partial

import jax
import jax.numpy as jnp

from aspire.samplers.smc.blackjax import BlackJAXSMC


class UnitFlow:
    def log_prob(self, x):
        return -0.5 * jnp.sum(jnp.asarray(x) ** 2, axis=-1)


asked = {"n": 0}


def log_likelihood(samples):
    asked["n"] += len(samples.x)
    return -0.5 * jnp.sum(samples.x**2, axis=-1)


def log_prior(samples):
    return jnp.zeros(len(samples.x))


smp = BlackJAXSMC(log_likelihood=log_likelihood, log_prior=log_prior, dims=2, prior_flow=UnitFlow(), xp=jnp, dtype="float32")
out = jax.vmap(partial(smp._jax_log_prob, beta=1.0))(jnp.ones((100, 2)))
print("values computed:", out.shape[0], "| n_likelihood_evaluations:", smp.n_likelihood_evaluations)
sys.exit(0 if smp.n_likelihood_evaluations == out.shape[0] else 1)
