"""The sample set the kernel target hands to the user's prior / likelihood must carry the run's parameter names, as every other evaluation does.
Real SMCSampler.log_prob / MCMCSampler.log_prob; a prior that looks its columns up by name."""
import sys
import numpy as np
from aspire.samplers.smc.base import SMCSampler
from aspire.samplers.mcmc import MCMCSampler
from aspire.transforms import IdentityTransform


class Flow:
    def log_prob(self, x):
        return -0.5 * (np.asarray(x) ** 2).sum(-1)


seen = []


def log_prior(samples, **kw):
    seen.append(list(samples.parameters))
    d = samples.to_dict()
    return -0.5 * np.asarray(d["mass"]) ** 2 - 0.5 * np.asarray(d["spin"]) ** 2


def log_likelihood(samples, **kw):
    return np.zeros(len(samples.x))


bad = 0
for cls in (SMCSampler, MCMCSampler):
    s = cls(log_likelihood, log_prior, 2, Flow(), np, parameters=["mass", "spin"])
    s.preconditioning_transform = IdentityTransform(xp=np)
    z = np.array([[0.1, 0.2], [0.3, 0.4]])
    try:
        out = s.log_prob(z, 0.5) if cls is SMCSampler else s.log_prob(z)
        print(cls.__name__, "target evaluated:", np.asarray(out), "names seen:", seen[-1])
    except KeyError as e:
        print(cls.__name__, "target raised KeyError", e, "names seen by the prior:", seen[-1])
        bad += 1
sys.exit(1 if bad else 0)
