"""Triage (NOT a check): a checkpoint file without a cadence gets no checkpoint at all, not even the final one.

SMCSampler.sample builds the default file callback only when checkpoint_every is given; with checkpoint_file_path=f and
checkpoint_every=None there is no callback, so neither the cadence checkpoints nor the forced final one are written (through the front
end: sample_posterior(checkpoint_path=f, checkpoint_every=None) leaves a file with configuration and flow only).  Exit 1 when the run
leaves no checkpoint in the file."""
import os
import sys
import tempfile

import h5py

sys.path.insert(0, os.path.dirname(os.path.abspath(__file__)))
from stub_smc import make  # noqa: E402

f = os.path.join(tempfile.mkdtemp(prefix="no_cadence_"), "run.h5")
s = make(seed=3)
s.sample(64, n_steps=3, adaptive=False, checkpoint_file_path=f, checkpoint_every=None)
has = os.path.exists(f) and "checkpoint" in h5py.File(f, "r")
print("run finished; file exists:", os.path.exists(f), "| holds a checkpoint:", bool(has))
sys.exit(0 if has else 1)
