"""Sequences for which the UNCHANGED library already contradicts property C14.

Run as:  cd <this directory> && PYTHONPATH=/tmp/wt8/C14/src /venv/bin/python unchanged_observations.py
It re-uses the scaffolding of demo.py (stand-in kernel modules, check_file).
Every block prints VIOLATION on the unchanged worktree.
"""
import os
import tempfile

from demo import (  # noqa: F401
    SMC,
    Aspire,
    check_file,
    data,
    log_likelihood,
    log_prior,
    make_aspire,
)


def attempt(label, path):
    try:
        check_file(path, label)
        print("   ->", label, ": consistent")
    except AssertionError as exc:
        print("   ->", label, ": VIOLATION:", exc)


def first_run(path):
    aspire = make_aspire()
    aspire.fit(data(0.0, 1), n_epochs=5)
    aspire.sample_posterior(n_samples=30, checkpoint_path=path, **SMC)
    return aspire


tmp = tempfile.mkdtemp(prefix="c14_obs_")

# (4) a run that dies before its first checkpoint leaves the new flow next to
#     the previous run's checkpoint
path = os.path.join(tmp, "obs4.h5")
aspire = first_run(path)
aspire.fit(data(3.0, 2), n_epochs=5)
calls = {"n": 0}


def dying_log_likelihood(samples):
    calls["n"] += 1
    if calls["n"] > 1:
        raise RuntimeError("node died")
    return log_likelihood(samples)


aspire.log_likelihood = dying_log_likelihood
try:
    aspire.sample_posterior(n_samples=30, checkpoint_path=path, **SMC)
except RuntimeError as exc:
    print("second run interrupted:", exc)
attempt("(4) refit, second run dies before its first checkpoint", path)


import sys
