"""C14 / change o - demo.

Operation history (all of it targets one file, run.h5):

  1. fit the flow on data A, run SMC to completion with checkpoint_path=run.h5
  2. Aspire.resume_from_file(run.h5)              -> R (defaults primed to run.h5)
  3. R.fit(data B)                                 (improve the proposal)
  4. R.sample_posterior(resume_from=None, ...)     (a fresh SMC run, no context)

After step 4 the file must still be self-consistent: the flow stored in it has
to be the proposal the stored checkpoint's particles were weighted under, and
the stored configuration has to name the sampler that wrote the checkpoint.

The kernel packages (minipcn, orng) are not installed, so two tiny stand-in
modules provide a random-walk kernel and a seeded RNG; everything else is the
library's own code path (Aspire -> MiniPCNSMC -> SMCSampler).
"""
import logging
import pickle
import sys
import types

import numpy as np

# ---- stand-ins for the kernel packages that are not installed -------------
orng = types.ModuleType("orng")


class ArrayRNG:
    def __init__(self, backend=None, seed=1234):
        self._rng = np.random.default_rng(seed)
        self.backend = backend

    @property
    def bit_generator(self):
        return self._rng.bit_generator

    def choice(self, *a, **k):
        return self._rng.choice(*a, **k)

    def normal(self, *a, **k):
        return self._rng.normal(*a, **k)

    def uniform(self, *a, **k):
        return self._rng.uniform(*a, **k)


orng.ArrayRNG = ArrayRNG
sys.modules["orng"] = orng

minipcn = types.ModuleType("minipcn")


class _Hist:
    def __init__(self, acc):
        self.acceptance_rate = acc


class _Sampler:
    """Tiny random-walk Metropolis kernel with the minipcn.Sampler interface."""

    def __init__(self, log_prob_fn, step_fn, rng, dims, target_acceptance_rate, xp=None):
        self.log_prob_fn = log_prob_fn
        self.rng = rng
        self.dims = dims

    def sample(self, z, n_steps):
        z = np.array(z, dtype=float)
        lp = np.asarray(self.log_prob_fn(z), dtype=float)
        chain = [z.copy()]
        acc = []
        for _ in range(n_steps):
            prop = z + 0.3 * self.rng.normal(size=z.shape)
            lp_new = np.asarray(self.log_prob_fn(prop), dtype=float)
            u = np.log(self.rng.uniform(size=len(z)))
            ok = u < (lp_new - lp)
            z = np.where(ok[:, None], prop, z)
            lp = np.where(ok, lp_new, lp)
            chain.append(z.copy())
            acc.append(ok.mean())
        return np.stack(chain), _Hist(np.array(acc))


minipcn.Sampler = _Sampler
sys.modules["minipcn"] = minipcn

import torch  # noqa: E402

from aspire import Aspire  # noqa: E402
from aspire.samples import Samples  # noqa: E402
from aspire.utils import AspireFile, load_from_h5_file  # noqa: E402

logging.getLogger("aspire").setLevel(logging.ERROR)

DIMS = 2
PARAMS = ["a", "b"]
BOUNDS = {"a": [-10.0, 10.0], "b": [-10.0, 10.0]}


def log_likelihood(samples):
    x = np.asarray(samples.x)
    return -0.5 * np.sum((x - 1.0) ** 2, axis=-1)


def log_prior(samples):
    x = np.asarray(samples.x)
    inside = np.all((x >= -10) & (x <= 10), axis=-1)
    return np.where(inside, -DIMS * np.log(20.0), -np.inf)


def data(mean, seed):
    rng = np.random.default_rng(seed)
    return Samples(rng.normal(mean, 1.0, size=(400, DIMS)), parameters=PARAMS)


def make_aspire(**kw):
    kw.setdefault("parameters", PARAMS)
    kw.setdefault("prior_bounds", BOUNDS)
    return Aspire(
        log_likelihood=log_likelihood,
        log_prior=log_prior,
        dims=DIMS,
        flow_backend="zuko",
        **kw,
    )


def read_file(path):
    """Return (config, flow, checkpoint state or None) as stored in the file."""
    from aspire.flows import get_flow_wrapper

    with AspireFile(path, "r") as f:
        config = load_from_h5_file(f, "aspire_config") if "aspire_config" in f else None
        FlowClass, _ = get_flow_wrapper("zuko")
        flow = FlowClass.load(f, path="flow") if "flow" in f else None
        state = None
        if "checkpoint" in f and "state" in f["checkpoint"]:
            state = pickle.loads(f["checkpoint"]["state"][...].tobytes())
    return config, flow, state


def check_file(path, label):
    """The property's own statement, checked on what is stored in the file."""
    config, flow, state = read_file(path)
    assert state is not None, f"[{label}] no checkpoint in file"
    s = state["samples"]
    x = np.asarray(s.x)
    stored = np.asarray(s.log_q, dtype=float)
    under_file_flow = np.asarray(flow.log_prob(torch.as_tensor(x)).numpy(), dtype=float)
    err = float(np.max(np.abs(stored - under_file_flow)))
    cls = Aspire.get_sampler_class(None, config["sampler_type"]).__name__
    print(f"[{label}] max|log_q(ckpt) - log_q(file flow)| = {err:.3e}; config sampler_type={config['sampler_type']} ({cls}); checkpoint sampler={state['sampler']}; iteration={state['iteration']}; n={len(x)}")
    assert err < 1e-3, (
        f"[{label}] the flow stored in the file is not the proposal the stored "
        f"checkpoint's particles were weighted under (max diff {err:.3e})"
    )
    assert cls == state["sampler"], (
        f"[{label}] stored config names sampler {config['sampler_type']} ({cls}) "
        f"but the checkpoint was written by {state['sampler']}"
    )
    return config, flow, state


SMC = dict(sampler="smc", adaptive=False, n_steps=3, sampler_kwargs={"n_steps": 3})


def main():
    import os
    import tempfile

    torch.manual_seed(0)
    tmp = tempfile.mkdtemp(prefix="c14_o_")
    path = os.path.join(tmp, "run.h5")

    # 1. first analysis: proposal fitted to data A, SMC run checkpointed to the file
    first = make_aspire()
    first.fit(data(0.0, 1), n_epochs=5)
    first.sample_posterior(n_samples=30, checkpoint_path=path, **SMC)
    check_file(path, "after the first run")

    # 2. rebuild the object from the file
    resumed = Aspire.resume_from_file(
        path, log_likelihood=log_likelihood, log_prior=log_prior
    )
    # 3. improve the proposal with new training data
    resumed.fit(data(3.0, 2), n_epochs=5)
    # 4. start a fresh run with the refitted proposal; the resumed object
    #    checkpoints to the file it was built from
    resumed.sample_posterior(n_samples=30, resume_from=None, **SMC)

    _, file_flow, state = check_file(path, "after refit + fresh run on the resumed object")

    # The run in step 4 used the refitted flow: make sure that is what is stored
    x = torch.as_tensor(np.asarray(state["samples"].x))
    in_memory = resumed.flow.log_prob(x).numpy()
    stored = file_flow.log_prob(x).numpy()
    diff = float(np.max(np.abs(in_memory - stored)))
    print(f"max|log_q(flow used by the run) - log_q(flow in file)| = {diff:.3e}")
    assert diff < 1e-3, (
        "the file does not hold the flow that the last run used "
        f"(max diff {diff:.3e})"
    )
    print("OK: the checkpoint file is self-consistent")


if __name__ == "__main__":
    main()
