"""NumPy -> PyTorch must succeed for every sample set, also one obtained by a reversed / strided-backwards selection (negative strides)."""
import sys
import numpy as np
import torch  # noqa: F401
import array_api_compat.torch as txp
from aspire.samples import Samples

s = Samples(x=np.arange(12.0).reshape(6, 2), log_likelihood=np.arange(6.0), log_prior=np.zeros(6), log_q=np.zeros(6))
r = s[::-1]
try:
    t = r.to_namespace(txp)
except Exception as e:  # noqa: BLE001
    print("conversion raised", type(e).__name__, str(e)[:120])
    sys.exit(1)
ok = np.array_equal(np.asarray(t.x), np.asarray(r.x)) and np.array_equal(np.asarray(t.log_likelihood), np.asarray(r.log_likelihood))
print("values preserved:", ok)
sys.exit(0 if ok else 1)
