"""Triage (NOT a check): on the real aspire code, fit(..., overwrite=True) after an SMC run replaces /flow in the
checkpoint file while /checkpoint/state keeps the particles weighted under the previous flow; resume_from_file then
pairs that population with the new flow.  Exit 1 when the mismatch is observed."""
import os
import sys
import tempfile

import numpy as np

sys.path.insert(0, os.path.dirname(os.path.abspath(__file__)))
from stub_smc import StubSMC  # noqa: E402

from aspire import Aspire  # noqa: E402
from aspire.samples import Samples  # noqa: E402


class A(Aspire):
    def get_sampler_class(self, sampler_type):
        return StubSMC if sampler_type == "smc" else super().get_sampler_class(sampler_type)


def loglike(s):
    return -0.5 * np.sum(np.asarray(s.x) ** 2, axis=-1)


def logprior(s):
    return np.zeros(len(s.x))


def main():
    rng = np.random.default_rng(0)
    tmp = os.path.join(tempfile.mkdtemp(prefix="refit_"), "run.h5")
    a = A(log_likelihood=loglike, log_prior=logprior, dims=2, parameters=["a", "b"], flow_backend="zuko", seed=1, xp=np)
    a.fit(Samples(rng.normal(size=(200, 2)), parameters=["a", "b"]), n_epochs=2, checkpoint_path=tmp)
    a.sample_posterior(n_samples=64, sampler="smc", n_steps=2, adaptive=False, checkpoint_path=tmp, checkpoint_every=1)
    # refit on different data, asking to overwrite the stored flow
    a.fit(Samples(3.0 + 0.1 * rng.normal(size=(200, 2)), parameters=["a", "b"]), n_epochs=2, checkpoint_path=tmp, overwrite=True)
    r = A.resume_from_file(tmp, log_likelihood=loglike, log_prior=logprior, sampler="smc")
    import pickle
    state = pickle.loads(r._resume_from_default)
    pop = state["samples"]
    lq_file_flow = np.asarray(r.flow.log_prob(np.asarray(pop.x))).ravel()
    err = float(np.max(np.abs(lq_file_flow - np.asarray(pop.log_q).ravel())))
    print("max |log_q stored with the checkpointed particles - log_prob of the flow now in the file| =", err)
    return 1 if err > 1e-3 else 0


if __name__ == "__main__":
    sys.exit(main())
