"""Scalar bounds broadcast over several columns: the unit-interval scaling must enter the log-Jacobian once per column.
Real aspire code; compares the reported forward log-Jacobian with log|det| of a central-difference Jacobian."""
import sys
import numpy as np
import array_api_compat.numpy as xp
from aspire.transforms import LogitTransform, ProbitTransform

bad = 0
for cls in (LogitTransform, ProbitTransform):
    t = cls(lower=-1.0, upper=2.0, xp=xp)
    x = np.array([[-0.75, 0.0, 1.25]])
    y, lj = t.forward(x)
    h = 1e-6
    J = np.zeros((3, 3))
    for k in range(3):
        e = np.zeros(3); e[k] = h
        J[:, k] = (t.forward(x + e)[0][0] - t.forward(x - e)[0][0]) / (2 * h)
    true = np.log(abs(np.linalg.det(J)))
    xi, lji = t.inverse(y)
    print(cls.__name__, "reported", float(lj[0]), "true", float(true), "inverse", float(lji[0]))
    if abs(float(lj[0]) - true) > 1e-5 or abs(float(lji[0]) + true) > 1e-5:
        bad += 1
sys.exit(1 if bad else 0)
