"""Triage (NOT a check): on the real aspire code, an instance built with Aspire.resume_from_file keeps the checkpoint it was primed with
for every later sample_posterior call.  resume -> sample_posterior() (finishes the run) -> fit(new samples) -> sample_posterior() again:
the second call is handed the *old* primed checkpoint as resume_from, so the sampler continues the old population (weighted under the
flow that was in the file) while /flow has just been rewritten with the refitted flow; the file then pairs that population with a
proposal it was not weighted under.  Exit 1 when the mismatch is observed."""
import os
import pickle
import sys
import tempfile

import numpy as np

sys.path.insert(0, os.path.dirname(os.path.abspath(__file__)))
from stub_smc import StubSMC  # noqa: E402

from aspire import Aspire  # noqa: E402
from aspire.samples import Samples  # noqa: E402


# resume_from_file rebuilds a plain Aspire (not cls), so the stand-in kernel is installed on the class itself
_orig = Aspire.get_sampler_class
Aspire.get_sampler_class = lambda self, t: StubSMC if t in ("smc", "minipcn_smc") else _orig(self, t)
A = Aspire


def loglike(s):
    return -0.5 * np.sum(np.asarray(s.x) ** 2, axis=-1)


def logprior(s):
    return np.zeros(len(s.x))


def main():
    rng = np.random.default_rng(0)
    tmp = os.path.join(tempfile.mkdtemp(prefix="resumed_refit_"), "run.h5")
    a = A(log_likelihood=loglike, log_prior=logprior, dims=2, parameters=["a", "b"], flow_backend="zuko", seed=1, xp=np)
    a.fit(Samples(rng.normal(size=(200, 2)), parameters=["a", "b"]), n_epochs=2)
    a.sample_posterior(n_samples=64, sampler="smc", n_steps=2, adaptive=False, checkpoint_path=tmp, checkpoint_every=1)
    r = A.resume_from_file(tmp, log_likelihood=loglike, log_prior=logprior)
    r.sample_posterior()  # completes (here: re-reads the finished run)
    print("primed checkpoint still installed after the resumed run completed:", hasattr(r, "_resume_from_default"))
    r.fit(Samples(3.0 + 0.1 * rng.normal(size=(200, 2)), parameters=["a", "b"]), n_epochs=2)
    r.sample_posterior()  # a new analysis with the refitted flow -- but it is handed the old checkpoint
    r2 = A.resume_from_file(tmp, log_likelihood=loglike, log_prior=logprior)
    pop = pickle.loads(r2._resume_from_default)["samples"]
    lq_file_flow = np.asarray(r2.flow.log_prob(np.asarray(pop.x))).ravel()
    err = float(np.max(np.abs(lq_file_flow - np.asarray(pop.log_q).ravel())))
    print("max |log_q stored with the checkpointed particles - log_prob of the flow now in the file| =", err)
    return 1 if err > 1e-3 else 0


if __name__ == "__main__":
    sys.exit(main())
