"""Triage (NOT a check): BlackJAXSMC's JAX key is loop-carried state that the
checkpoint does not contain.  blackjax itself is absent in the sandbox, so the
kernel is replaced by a stand-in that consumes the sub-key exactly as
BlackJAXSMC.mutate does (self.key, subkey = jax.random.split(self.key))."""
import numpy as np, jax
from aspire.samplers.smc.blackjax import BlackJAXSMC
from aspire.samples import SMCSamples
from stub_smc import GaussFlow

consumed = []
class Demo(BlackJAXSMC):
    def mutate(self, particles, beta, n_steps=None):
        self.key, subkey = jax.random.split(self.key)          # verbatim from BlackJAXSMC.mutate
        consumed.append(np.asarray(jax.random.key_data(subkey)).tolist())
        x = np.asarray(particles.x) + 0.01 * np.asarray(jax.random.normal(subkey, np.asarray(particles.x).shape))
        s = SMCSamples(x, xp=self.xp, beta=beta, dtype=self.dtype, parameters=self.parameters)
        s.log_q = s.array_to_namespace(self.prior_flow.log_prob(s.x))
        s.log_prior = s.array_to_namespace(self.log_prior(s))
        s.log_likelihood = s.array_to_namespace(self.log_likelihood(s))
        self.history.mcmc_acceptance.append(1.0)
        return s

def mk():
    ll = lambda s: -0.5 * np.sum((np.asarray(s.x) / 0.3) ** 2, axis=-1)
    lp = lambda s: np.zeros(len(s.x))
    return Demo(ll, lp, 2, GaussFlow(2), np, rng=np.random.default_rng(0))

cps = []
a = mk(); out = a.sample(300, adaptive=True, rng_key=jax.random.key(7), checkpoint_callback=lambda st: cps.append(a.serialize_checkpoint(st)), checkpoint_every=1)
ref = list(consumed); consumed.clear()
print("checkpoint payload keys:", sorted(__import__("pickle").loads(cps[0]).keys()))
b = mk(); out2 = b.sample(300, adaptive=True, rng_key=jax.random.key(7), resume_from=cps[0])
print("reference sub-keys :", ref)
print("resumed@1 sub-keys :", consumed)
print("same final samples:", np.array_equal(np.asarray(out.x), np.asarray(out2.x)))
