"""Triage helper (NOT a check): a stub SMC sampler that runs aspire's real SMC
loop with a trivial mutate(), used only to reproduce findings against the real
code.  Kernel packages (minipcn, emcee, blackjax) are absent in the sandbox."""
import numpy as np
from aspire.samplers.smc.base import SMCSampler
from aspire.samples import SMCSamples


class GaussFlow:
    """Stand-in proposal N(0, s^2 I) with exact log_prob."""
    def __init__(self, dims, scale=2.0, seed=0):
        self.dims, self.scale = dims, scale
        self.rng = np.random.default_rng(seed)

    def log_prob(self, x):
        x = np.asarray(x)
        return -0.5 * np.sum((x / self.scale) ** 2, axis=-1) - self.dims * np.log(self.scale * np.sqrt(2 * np.pi))

    def sample_and_log_prob(self, n):
        x = self.rng.normal(size=(n, self.dims)) * self.scale
        return x, self.log_prob(x)


class StubSMC(SMCSampler):
    sampler_kwargs = None
    n_mutations = 0

    def mutate(self, particles, beta, n_steps=None):
        self.n_mutations += 1
        if getattr(self, "max_mutations", None) and self.n_mutations > self.max_mutations:
            raise RuntimeError(f"stub: more than {self.max_mutations} mutations (no progress?) beta={beta}")
        x = np.asarray(particles.x) + 0.0
        s = SMCSamples(x, xp=self.xp, beta=beta, dtype=self.dtype, parameters=self.parameters)
        s.log_q = s.array_to_namespace(self.prior_flow.log_prob(s.x))
        s.log_prior = s.array_to_namespace(self.log_prior(s))
        s.log_likelihood = s.array_to_namespace(self.log_likelihood(s))
        self.history.mcmc_acceptance.append(1.0)
        return s


def make(dims=2, like_scale=1.0, seed=0, **kw):
    def log_likelihood(s):
        return -0.5 * np.sum((np.asarray(s.x) / like_scale) ** 2, axis=-1)

    def log_prior(s):
        return np.zeros(len(s.x))

    return StubSMC(log_likelihood, log_prior, dims, GaussFlow(dims, seed=seed), np,
                   rng=np.random.default_rng(seed), **kw)
