"""Triage demo (not a check): a run stopped by max_n_steps performs one more tempering iteration when resumed from its final checkpoint.

On the resumed path SMCSampler.sample skipped the loop only when the restored temperature had reached 1.  A run that used up its
iteration cap with beta < 1 and is resumed from its last (forced, final) checkpoint with the same options re-entered the loop; the
body runs before the cap is tested.  Exit 0 when the resumed run records the same temperatures as the uninterrupted one."""
import os
import sys

import numpy as np

sys.path.insert(0, os.path.dirname(os.path.abspath(__file__)))
from stub_smc import make  # noqa: E402

OPTS = dict(adaptive=True, min_step=0.01, max_n_steps=3, target_efficiency=0.99)
a = make(like_scale=0.05, seed=1)
states = []
a.sample(200, checkpoint_callback=states.append, checkpoint_every=1, **OPTS)
ref = list(a.history.beta)
b = make(like_scale=0.05, seed=1)
b.sample(200, resume_from=states[-1], **OPTS)
res = list(b.history.beta)
print("uninterrupted:", [round(float(x), 4) for x in ref])
print("resumed from the final checkpoint:", [round(float(x), 4) for x in res])
sys.exit(0 if len(res) == len(ref) else 1)
