#!/venv/bin/python
"""Whole-suite mutation sweep (development helper, not a check).

Generates generic one-point AST mutants of every function any property is
anchored in and runs *all* property rule modules on each (in memory).  A mutant
that no property refutes is either equivalent / outside every property or a gap
in the rules; the list is written to /verif/tools/sweep_silent.txt for triage.
"""
import concurrent.futures as cf
import importlib
import multiprocessing as mp
import os
import sys
import time

sys.path.insert(0, os.path.dirname(os.path.dirname(os.path.abspath(__file__))))
from aspire_sa import AnalysisError  # noqa: E402
from aspire_sa.automut import generate  # noqa: E402
from aspire_sa.model import Repo  # noqa: E402
from aspire_sa.report import REFUTED, UNKNOWN, Ctx  # noqa: E402

PROPS = [f"C{i:02d}" for i in range(2, 21)]
_BASE = {}


def base_bad():
    if not _BASE:
        repo = Repo()
        for p in PROPS:
            mod = importlib.import_module(f"aspire_sa.rules.{p.lower()}")
            ctx = Ctx(p, "quick", repo)
            mod.run(ctx)
            _BASE[p] = {f.key for f in ctx.findings if f.verdict in (REFUTED, UNKNOWN)}
    return _BASE


def one(job):
    name, path, src = job
    bad = base_bad()
    hits, unk = [], []
    try:
        repo = Repo(overlay={path: src})
    except AnalysisError:
        return name, ["<parse>"], []
    for p in PROPS:
        mod = importlib.import_module(f"aspire_sa.rules.{p.lower()}")
        ctx = Ctx(p, "quick", repo)
        try:
            mod.run(ctx)
        except AnalysisError:
            unk.append(p)
            continue
        except Exception:
            unk.append(p + "!")
            continue
        if any(f.verdict == REFUTED and f.key not in bad[p] for f in ctx.findings):
            hits.append(p)
        elif any(f.verdict == UNKNOWN and f.key not in bad[p] for f in ctx.findings) or any(g < fl for _n, g, fl in ctx.floors):
            unk.append(p)
    return name, hits, unk


def main():
    t0 = time.time()
    repo = Repo()
    anchors = []
    for p in PROPS:
        mod = importlib.import_module(f"aspire_sa.rules.{p.lower()}")
        for a in getattr(mod, "ANCHORS", []):
            if a not in anchors:
                anchors.append(a)
    only = sys.argv[1:]
    if only:
        anchors = [a for a in anchors if any(o in a for o in only)]
    jobs = list(generate(repo, anchors, limit_per_function=80))
    print(f"{len(anchors)} anchored functions, {len(jobs)} mutants", flush=True)
    base_bad()
    res = []
    with cf.ProcessPoolExecutor(max_workers=int(os.environ.get("SWEEP_JOBS", "14")), mp_context=mp.get_context("fork")) as ex:
        for r in ex.map(one, jobs, chunksize=4):
            res.append(r)
    refuted = [r for r in res if r[1]]
    undec = [r for r in res if not r[1] and r[2]]
    silent = [r for r in res if not r[1] and not r[2]]
    out = os.path.join(os.path.dirname(os.path.abspath(__file__)), "sweep_silent.txt")
    with open(out, "w") as f:
        f.write(f"# {len(jobs)} mutants: {len(refuted)} refuted by at least one property, {len(undec)} undecided only, {len(silent)} silent; {time.time() - t0:.0f}s\n")
        f.write("# silent (no property notices): equivalent, outside every property, or a rule gap\n")
        for name, _, _ in silent:
            f.write(f"SILENT {name}\n")
        for name, _, u in undec:
            f.write(f"UNDECIDED {name}  [{','.join(u)}]\n")
    print(f"refuted {len(refuted)}, undecided-only {len(undec)}, silent {len(silent)}; {time.time() - t0:.0f}s -> {out}")


if __name__ == "__main__":
    main()
