#!/venv/bin/python
"""Generate /verif/MANIFEST.json from the table below (development helper)."""
import json
import os

HERE = os.path.dirname(os.path.dirname(os.path.abspath(__file__)))

CLAIMS = {
    "C02": ("5 C02", "global value numbering with polynomial normal form (formula identities) + overflow-taint dataflow + call-time snapshot ordering of compute_weights",
            "Structural proof of the formula clauses: log_w == L+P-Q, log Z == LSE(log_w)-log N, ESS identity, max-shifted logsumexp, rejection mask, symmetric operations only, no shift-dependent exp() reaches the protected outputs, the ESS is computed from max-shifted log-weights, and outside the sample classes weights are computed only after the three log-densities of that set are stored and never before a later overwrite. Decides the algebra for all inputs at once; does not decide floating-point accuracy. Also (shared with C10): the initial population pairs each row's log_q with its own draw."),
    "C03": ("5 C03", "value numbering of flow wrappers: Jacobian sign conventions, must-pass-through inverse_rescale, constructor keyword/attribute agreement, cache-coherence analysis (lazy caches and jit / lru_cache closures over reassigned attributes)",
            "Structural necessary conditions per flow back-end: sign and provenance of both Jacobian terms, draws routed through the data transform, the data transform attached from the instance options. Normalisation of the third-party density is not decided. Also: no stochastic log-determinant estimator is enabled for a flow (frozen zuko API fact), and the flow survives save / load / re-save (shared with C13)."),
    "C04": ("5 C04", "value numbering + syntax-directed symbolic differentiation with a log-abs normal form (log-Jacobian == log|derivative|), forward/inverse antisymmetry, symbolic round trip of rational maps, composite stage-order/mask/accumulation extraction over all guard combinations",
            "Proves for every element-wise transform that the reported forward and inverse log-Jacobians equal the column sum of log|derivative| of the folded map (symbolic differentiation + log-abs normal form), antisymmetry at the corresponding point, the symbolic round trip of rational maps, and order/mask/accumulation for all 8 on/off combinations of the composite. Also: transforms never write into the array they are given (ownership analysis), and an in-place log-Jacobian accumulator is allocated in the transform's dtype."),
    "C05": ("5 C05", "value numbering of every kernel target against (1-beta)Q + beta(L+P) + J; NaN-map idiom match; binding of beta in mutate(); call-site agreement mutate(resample(p, b), b) in the SMC driver",
            "Proves the tempered-target identity, the NaN -> -inf map and the beta binding for every sampler class reachable by MRO, including kernels whose packages are absent. Also: a compiled / cached kernel target is rebuilt whenever an object it closed over is refitted (cache coherence through bound methods), and evaluating the target leaves the kernel's point untouched."),
    "C06": ("5 C06", "path-sensitive constant propagation (division by a definite zero), CFG exit/once-per-iteration analysis of the SMC loop, ranking argument over the option prologue, value numbering of the clamp/floor/snap",
            "Decides the structural termination conditions: loop exits only at beta==1 or the cap, counter and temperature updated once per iteration from determine_beta, clamp/floor identities, tolerance-robust snap of the fixed schedule, no definite division by zero on any feasible option path, progress on every option path (one known finding), shared options forwarded by every sample() override, a checkpoint snapshot of the temperature list (rule shared with C11) and NaN-free incremental weights for zero-likelihood particles (rule shared with C08)."),
    "C07": ("5 C07", "template match on the bisection loop's transfer function in value-numbered normal form",
            "Proves the bracket initialisation, guard, midpoint, branch polarity, result and the efficiency/target identities of the temperature search; monotonicity of ESS(beta) is an assumption of the method. Also (shared with C06): the loop moves to exactly the search result, once per iteration."),
    "C08": ("5 C08", "value numbering (ratio / variance identities), reaching definitions at the loop's ratio call on fresh and resumed paths, per-iteration path counting of history appends on the CFG, who-may-write scan, final-sum identity with call-time snapshot",
            "Proves that each step's ratio uses the pre-resampling population and the temperatures actually used, is appended exactly once per iteration and nowhere else, that the returned evidence and error are the sum / root-sum of the recorded series, and (hazard analysis on the products as written) that the log-likelihood enters the incremental weight only multiplied by the temperature difference, so a zero-likelihood particle gets weight 0, not NaN. Also: an increment computed inline is decided on values (weights of the temperature the iteration moves to), the recorded series are not updated in place by later readers, and the total keeps the run's precision."),
    "C09": ("5 C09", "value numbering of the generator call and the constructor keywords (field x index agreement); call-site agreement of the temperature handed to resample() and to the kernel",
            "Proves the probability vector is the normalised incremental weight, the draw uses the caller's generator, every per-sample field is indexed by the one drawn index, and a weight vector supplied by the caller is log_weights(population, beta') for the temperature resampled to (checked at the call sites with determine_beta inlined)."),
    "C10": ("5 C10", "typestate 'coherent' on sample-set objects (field x producer agreement on the same object), loop transfer function of the initial-population accumulator, who-may-write scan of .x, flow-sensitive ownership (borrow) analysis of every in-place array write",
            "Proves that each mutate() re-evaluates q, prior and likelihood on the returned object from its own coordinates, that the initial population pairs each draw with its own log_q, keeps exactly the finite-prior rows and starts empty and is trimmed to n, that the final enlargement runs exactly when a different final size is requested and re-evaluates the densities, that nothing overwrites coordinates in place, and that every in-place array write (update_at_indices, subscript stores, in-place methods, out=) targets an array created in the writing function, never a (view of a) parameter or attribute."),
    "C11": ("5 C11", "computed loop-carried state (upward-exposed uses, mod summaries through self calls) vs checkpoint payload key set and restore-side stores; oracle-resolved value provenance of every restored quantity under the written layout; CFG cut-point check over every checkpoint call including exceptional edges; history-free refit of the preconditioning transforms (upward-exposed attributes updated from data); mutable-default scan of payload builders; per-source-type folding of the dispatch; value-based forwarding of the primed checkpoint",
            "Proves every loop-carried local and self attribute is saved and restored (one known finding: BlackJAX key), restore reads only keys the payload writes, the resumed path does not mutate restored state before the loop, the checkpoint is cut after the iteration's writes and snapshots (deep-copies) the history, each restored quantity is exactly the entry the payload wrote, each of the three source kinds is routed to its loader, a finished run does not iterate again, and the resume-from-file constructor primes checkpoint, size and sampler type which sample_posterior forwards under exactly the stated conditions. Restore hooks bring back nothing that sample() consumes destructively, and every sample() override hands resume_from on. Bit-identical replay is not decided. Also: the generator / history objects the restore wrote into are not replaced before the loop, and the proposal stored next to the checkpoint is the current one (shared with C14)."),
    "C12": ("5 C12", "CFG path counting and post-dominance of checkpoint calls, path-condition extraction of the cadence predicate, typestate interpretation of the HDF5 blob writer over the four prior states of the dataset, constant agreement writer vs readers, dominance of config/flow writing over sampling, oracle-resolved wiring of file path / cadence / callback from the arguments or the auto-checkpoint context",
            "Proves cadence (once per iteration + forced final on every return path), that the blob writer leaves a dataset of the new length holding the whole new buffer whatever the file held before (absent / same length / shorter / longer), per-checkpoint open/close, agreement of the group/dataset constants, that config and flow are written before the sampler starts (the flow under no other guard than its existence), and that the file, cadence and file-writing callback handed to the sampler are the explicit arguments, else the context defaults, and every sample() override hands the checkpoint options on to the loop. Also: the blob is one pickle of this call's state in a buffer of its own, and every SMC sampler names the options sample_posterior looks for in signature(sample)."),
    "C17": ("5 C17", "typestate (prior=SET) at every discovered likelihood call site, through row-aligned derivations and loop-carried variables; who-may-reference scan for the raw callable and the counter",
            "The temporal property is decided completely at the structural level: all 12 call sites, including kernels that cannot be imported here; counting wrapper is the only path to the user likelihood and adds len(samples) before the user call is entered. Also: positional callables reach the constructor parameter they are named after (argument-order rule over resolved calls)."),
    "C18": ("5 C18", "per-iteration path counting of history appends on the CFG (with run-invariant flag splitting), per-call path counting in each concrete mutate(), fresh/resumed pre-loop append analysis, value numbering of appended values",
            "Proves one entry per iteration for every series on every path and class, initial population recorded once on the fresh path only, appended values are this iteration's definitions (four known findings: extra entry from the enlargement mutate). Also: a resumed run starts from the checkpointed history (shared with C11), and recorded series are not updated in place through an item alias."),
    "C13": ("5 C13", "writer/reader schema agreement: key-set, sentinel, group/dataset-name, f-string-template and constructor-signature extraction for ten save/load pairs; sibling comparison of the two flow loaders; per-value-kind folding of the HDF5 encoder/decoder; event dataflow of flow / transform / history save and load (private helpers inlined); constant folding of the namespace-name resolver on the names a writer stores; field carry of to_numpy(), which every sample-set writer goes through",
            "Proves that what each writer emits is what its reader consumes (and that empty dicts reach their sentinel, captured **kwargs are re-splatted, every stateful constructor parameter is saved and every key passed on rebuild is a named parameter), that every kind of value takes the encoder/decoder branch meant for it and the two sides pair up, and that flow/transform/history loaders install what the savers wrote (weights, data transform, fitted state, all series) in the object they return. Arrays reload as arrays (only 0-d collapsed to scalars). Value equality after a round trip is not decided. Also: stored values never receive HDF5 chunk / filter options without a rank test (0-d data would fall into the lossy string fallback), and a configuration group is replaced, not merged."),
    "C14": ("5 C14", "guard-term analysis of the artifact writes that precede the sampler call (no file-content-dependent skip, delete-before-rewrite, sampler type updated first); branch analysis of the non-checkpointing-sampler path and of fit()'s rewrites next to a stored checkpoint; blob-writer typestate and flow save/load round-trip rules shared with C12 / C13",
            "Decides necessary clauses -- no stale-artifact guard on /flow and /aspire_config before sampling, the checkpoint payload is really stored, a flow survives load-then-save, and neither a non-checkpointing sampler nor fit() swaps flow / configuration under a checkpoint they leave in place (three known findings) --; the quantification over operation histories is not claimed (state-space exploration, another family). Also: bounds are wired in parameter order (the file returns mappings key-sorted) and flow wrappers keep no stale compiled density across refits."),
    "C15": ("5 C15", "field-carry matrix over (concrete class x inherited rebuild method) from value-numbered constructor keywords, with a frozen exception table; dtype-conversion provenance; who-constructs scan inside samplers; no_grad guard on torch flow outputs; raw-NumPy-operand scan of array arithmetic (numpy.float64 scalars widen float32)",
            "Proves for all 18 (class, method) pairs that every constructor field is carried or deliberately excepted, conversions build in the target namespace with a converted dtype, sampler populations receive the sampler dtype, torch flow outputs are grad-free, and no memoised function reads the namespace default dtype (run-time state). Numerical value preservation is not decided. Also: a dtype handed to a namespace conversion was converted for the target (convert_dtype, not resolve_dtype, for source-library dtype objects), and a DLPack hand-over of a torch tensor is made contiguous first."),
    "C16": ("5 C16", "value numbering of __getitem__/concatenate keywords per concrete class (one index, one list, same-field guard), carried-not-recomputed evidence, pickle key pairing, from_dict(to_dict(s)) folded as one composition with the dataclass-field loop unrolled (per class and layout)",
            "Proves row alignment of selection and concatenation for every per-sample field of every class, that scalar fields are carried, that pickling restores the namespace, and that the dict round trip hands every constructor field of the source back to the constructor (x rebuilt per parameter name, same namespace; in the nested layout nothing is removed from the field dictionary by parameter name). The reference-model comparison over operation sequences is not decided. Also: the constructors store per-sample fields through shape-preserving conversions only."),
    "C19": ("5 C19", "CFG with exceptional edges: save-before-overwrite dominance, restore on all paths from the yield (must-pass-through), both restore branches, absent-versus-None entry state (who stores None in the attribute); __enter__/__exit__ store ordering and guards of PoolHandler",
            "For these two context managers the structure is the behaviour: every normal or exceptional exit passes the restore, originals are saved before replacement and restored unconditionally first, the pool is closed only on request and exceptions propagate. Also: nothing that may raise runs in the clean-up before the restore."),
    "C20": ("5 C20", "random-source provenance: fallback-only construction of fresh generators, effectual-parameter (def-use) analysis, held-generator preservation, third-party kernel API table, JAX key split/advance/single-use path counting, sibling constructor agreement, caller-owned dict aliasing, key in force at the hand-over to the run (pre-call snapshot), no seeding inside a fork_rng block",
            "Proves the structural necessary conditions of reproducibility (four known findings about minipcn/emcee wiring); every seed value of the torch flow takes effect. Bit-identical output is not decided. Also: a class whose constructor takes the random source does not fall back to a fresh one in sample(), and no draw depends on the logging state."),
}

NA = {
    "C01": "statistical correctness of Monte-Carlo output: no static argument bounds an estimator's distribution; its structural necessary conditions are decided under C02, C03, C04, C05, C08, C10 (DESIGN 5 C01)",
}

PENDING = {}


def main():
    checks = []
    for pid, (ref, tech, text) in sorted(CLAIMS.items()):
        checks.append({
            "property_id": pid,
            "quick_cmd": f"./sa check {pid} --tier quick",
            "thorough_cmd": f"./sa check {pid} --tier thorough",
            "evidence_file": f"/verif/evidence/{pid}.json",
            "replay_cmd_template": "./sa replay {path}",
            "engine": "aspire_sa",
            "level_claimed": {"category": "other", "text": text, "design_ref": f"DESIGN.md section {ref}"},
            "level_note": "Trusted: CPython ast, the aspire_sa engine (resolver, evaluator/GVN, CFG, frozen rule tables). Assumes real arithmetic, element-wise NumPy semantics, deterministic user callables, no monkey-patching beyond the source.",
            "technique": "static analysis: " + tech,
        })
    na = [{"property_id": k, "reason": v} for k, v in sorted({**NA, **{p: r for p, r in PENDING.items() if p not in CLAIMS}}.items())]
    man = {
        "version": 1,
        "setup_cmd": "/venv/bin/python -m compileall -q aspire_sa >/dev/null 2>&1 || python3 -m compileall -q aspire_sa >/dev/null 2>&1 || true",
        "hooks": {
            "guard": "MJ_WILL_ASPIRE_VERIF",
            "enable": "none needed: the checks read /repo's source and never import or run it",
            "baseline_off_cmd": "cd /repo && /venv/bin/python -m pytest -ra -q -p no:cacheprovider --timeout=900 --continue-on-collection-errors",
            "source_commits": [],
            "add_only": True,
        },
        "engines": [{
            "name": "aspire_sa",
            "path": "/verif/aspire_sa",
            "serves_properties": sorted(CLAIMS),
            "kind_free_text": "stdlib-ast static analyser specific to aspire: program model (MRO, imports, dataclass fields), abstract evaluator producing value-numbered polynomial normal forms, statement CFG / path queries, rule modules per property, in-memory seeded/neutral variants for self-validation",
        }],
        "checks": checks,
        "not_applicable": na,
        "notes": "Exit 0 held (KNOWN-FINDING lines possible), 1 VIOLATION, 2 ANALYSIS-ERROR (undecided; never a silent pass). known_findings.json lists recorded and fixed defects.",
    }
    with open(os.path.join(HERE, "MANIFEST.json"), "w") as f:
        json.dump(man, f, indent=1)
    print("claims", len(checks), "not_applicable", len(na))


if __name__ == "__main__":
    main()
