#!/venv/bin/python
"""Generate /verif/MANIFEST.json from the table below (development helper)."""
import json
import os

HERE = os.path.dirname(os.path.dirname(os.path.abspath(__file__)))

CLAIMS = {
    "C02": ("5 C02", "global value numbering with polynomial normal form (formula identities) + overflow-taint dataflow",
            "Structural proof of the formula clauses: log_w == L+P-Q, log Z == LSE(log_w)-log N, ESS identity, max-shifted logsumexp, rejection mask, symmetric operations only, no shift-dependent exp() reaches the protected outputs. Decides the algebra for all inputs at once; does not decide floating-point accuracy."),
    "C03": ("5 C03", "value numbering of flow wrappers: Jacobian sign conventions, must-pass-through inverse_rescale, constructor keyword/attribute agreement",
            "Structural necessary conditions per flow back-end: sign and provenance of both Jacobian terms, draws routed through the data transform, the data transform attached from the instance options. Normalisation of the third-party density is not decided."),
    "C04": ("5 C04", "value numbering: forward/inverse log-Jacobian antisymmetry at the corresponding point, symbolic round trip of rational maps, composite stage-order/mask/accumulation extraction over all guard combinations",
            "Proves antisymmetry and (where rational) the round trip symbolically for every transform class and all 8 on/off combinations of the composite; a consistent error on both members of a pair is invisible."),
    "C05": ("5 C05", "value numbering of every kernel target against (1-beta)Q + beta(L+P) + J; NaN-map idiom match; binding of beta in mutate()",
            "Proves the tempered-target identity, the NaN -> -inf map and the beta binding for every sampler class reachable by MRO, including kernels whose packages are absent."),
    "C06": ("5 C06", "path-sensitive constant propagation (division by a definite zero), CFG exit/once-per-iteration analysis of the SMC loop, ranking argument over the option prologue, value numbering of the clamp/floor/snap",
            "Decides the structural termination conditions: loop exits only at beta==1 or the cap, counter and temperature updated once per iteration from determine_beta, clamp/floor identities, tolerance-robust snap of the fixed schedule, no definite division by zero on any feasible option path, progress on every option path (one known finding)."),
    "C07": ("5 C07", "template match on the bisection loop's transfer function in value-numbered normal form",
            "Proves the bracket initialisation, guard, midpoint, branch polarity, result and the efficiency/target identities of the temperature search; monotonicity of ESS(beta) is an assumption of the method."),
    "C08": ("5 C08", "value numbering (ratio / variance identities), reaching definitions at the loop's ratio call on fresh and resumed paths, per-iteration path counting of history appends on the CFG, who-may-write scan, final-sum identity with call-time snapshot",
            "Proves that each step's ratio uses the pre-resampling population and the temperatures actually used, is appended exactly once per iteration and nowhere else, and that the returned evidence and error are the sum / root-sum of the recorded series."),
    "C09": ("5 C09", "value numbering of the generator call and the constructor keywords (field x index agreement)",
            "Proves the probability vector is the normalised incremental weight, the draw uses the caller's generator, and every per-sample field is indexed by the one drawn index."),
}

NA = {
    "C01": "statistical correctness of Monte-Carlo output: no static argument bounds an estimator's distribution; its structural necessary conditions are decided under C02, C03, C04, C05, C08, C10 (DESIGN 5 C01)",
}

PENDING = {
    p: "check not built yet in this session (engine under construction); see DESIGN.md section 5"
    for p in ["C10", "C11", "C12", "C13", "C14", "C15", "C16", "C17", "C18", "C19", "C20"]
}


def main():
    checks = []
    for pid, (ref, tech, text) in sorted(CLAIMS.items()):
        checks.append({
            "property_id": pid,
            "quick_cmd": f"./sa check {pid} --tier quick",
            "thorough_cmd": f"./sa check {pid} --tier thorough",
            "evidence_file": f"/verif/evidence/{pid}.json",
            "replay_cmd_template": "./sa replay {path}",
            "engine": "aspire_sa",
            "level_claimed": {"category": "other", "text": text, "design_ref": f"DESIGN.md section {ref}"},
            "level_note": "Trusted: CPython ast, the aspire_sa engine (resolver, evaluator/GVN, CFG, frozen rule tables). Assumes real arithmetic, element-wise NumPy semantics, deterministic user callables, no monkey-patching beyond the source.",
            "technique": "static analysis: " + tech,
        })
    na = [{"property_id": k, "reason": v} for k, v in sorted({**NA, **{p: r for p, r in PENDING.items() if p not in CLAIMS}}.items())]
    man = {
        "version": 1,
        "setup_cmd": "/venv/bin/python -m compileall -q aspire_sa >/dev/null 2>&1 || python3 -m compileall -q aspire_sa >/dev/null 2>&1 || true",
        "hooks": {
            "guard": "MJ_WILL_ASPIRE_VERIF",
            "enable": "none needed: the checks read /repo's source and never import or run it",
            "baseline_off_cmd": "cd /repo && /venv/bin/python -m pytest -ra -q -p no:cacheprovider --timeout=900 --continue-on-collection-errors",
            "source_commits": [],
            "add_only": True,
        },
        "engines": [{
            "name": "aspire_sa",
            "path": "/verif/aspire_sa",
            "serves_properties": sorted(CLAIMS),
            "kind_free_text": "stdlib-ast static analyser specific to aspire: program model (MRO, imports, dataclass fields), abstract evaluator producing value-numbered polynomial normal forms, statement CFG / path queries, rule modules per property, in-memory seeded/neutral variants for self-validation",
        }],
        "checks": checks,
        "not_applicable": na,
        "notes": "Exit 0 held (KNOWN-FINDING lines possible), 1 VIOLATION, 2 ANALYSIS-ERROR (undecided; never a silent pass). known_findings.json lists recorded and fixed defects.",
    }
    with open(os.path.join(HERE, "MANIFEST.json"), "w") as f:
        json.dump(man, f, indent=1)
    print("claims", len(checks), "not_applicable", len(na))


if __name__ == "__main__":
    main()
